//! libFuzzer target for C01: byte 0 selects input format, style and precision, the rest is the source.
//!
//! Oracle inside the target: no panic other than the tolerated (known) ones, in either style.  A failure aborts, so
//! that libFuzzer stores the input; `./check C01 thorough` re-runs every stored input (and the corpus the campaign
//! built) through C01's own worker-based oracle before it reports anything.
#![no_main]

use libfuzzer_sys::fuzz_target;
use rsass::input::{Context, LoadError, Loader, SourceFile, SourceName};
use rsass::output::{Format, Style};
use std::cell::RefCell;
use std::panic::{catch_unwind, AssertUnwindSafe};
use std::sync::Once;

thread_local! {
    static LAST: RefCell<Option<String>> = const { RefCell::new(None) };
}
static INIT: Once = Once::new();

#[derive(Debug)]
struct NoFiles;
impl Loader for NoFiles {
    type File = std::io::Cursor<Vec<u8>>;
    fn find_file(&self, _url: &str) -> Result<Option<Self::File>, LoadError> {
        Ok(None)
    }
}

/// same over-approximation of the nesting depth as harness/src/props/c01.rs (every opener counts)
fn depth_bound(src: &[u8]) -> usize {
    let (mut depth, mut max, mut closers_in_doubt) = (0usize, 0usize, 0usize);
    let mut prev = 0u8;
    for &c in src {
        match c {
            b'{' | b'(' | b'[' => {
                depth += 1;
                max = max.max(depth);
            }
            b'}' | b')' | b']' => {
                // a closer may sit in a string or comment and close nothing: do not let it lower the bound
                closers_in_doubt += usize::from(prev == b'\\');
                depth = depth.saturating_sub(1);
            }
            _ => {}
        }
        prev = c;
    }
    max + closers_in_doubt
}

fn tolerated(sig: &str) -> bool {
    // "file-suffix|message-fragment;..." from the check script (open known findings of C01)
    std::env::var("VFUZZ_TOLERATE").ok().is_some_and(|t| {
        t.split(';').filter(|s| !s.is_empty()).any(|entry| {
            let mut p = entry.splitn(2, '|');
            let (file, msg) = (p.next().unwrap_or(""), p.next().unwrap_or(""));
            sig.contains(file) && sig.contains(msg)
        })
    })
}

fn compile(src: &[u8], css: bool, fmt: Format) -> Result<Result<Vec<u8>, String>, String> {
    let data = src.to_vec();
    let r = catch_unwind(AssertUnwindSafe(move || {
        let name = SourceName::root(if css { "input.css" } else { "input.scss" });
        let file = if css { SourceFile::css_bytes(data, name) } else { SourceFile::scss_bytes(data, name) };
        Context::for_loader(NoFiles).with_format(fmt).transform(file).map_err(|e| {
            let _ = format!("{e:?}");
            e.to_string()
        })
    }));
    match r {
        Ok(v) => Ok(v),
        Err(_) => Err(LAST.with(|l| l.borrow_mut().take()).unwrap_or_else(|| "<unknown panic>".into())),
    }
}

fuzz_target!(|data: &[u8]| {
    INIT.call_once(|| {
        std::panic::set_hook(Box::new(|info| {
            let msg = info.payload().downcast_ref::<&str>().map(|s| s.to_string()).or_else(|| info.payload().downcast_ref::<String>().cloned()).unwrap_or_default();
            let mut loc = info.location().map(|l| format!("{}:{}", l.file(), l.line())).unwrap_or_default();
            if !loc.contains("/rsass/src/") {
                let bt = std::backtrace::Backtrace::force_capture().to_string();
                let mut lines = bt.lines();
                while let Some(l) = lines.next() {
                    let func = l.trim().splitn(2, ": ").nth(1).unwrap_or("");
                    if func.starts_with("rsass::") || func.starts_with("<rsass::") {
                        loc = format!("{loc} in {func} ({})", lines.next().unwrap_or("").trim());
                        break;
                    }
                }
            }
            LAST.with(|l| *l.borrow_mut() = Some(format!("{msg} @ {loc}")));
        }));
    });
    if data.len() < 2 || data.len() > 65536 {
        return;
    }
    let sel = data[0];
    let src = &data[1..];
    if depth_bound(src) > 64 {
        return;
    }
    let css = sel & 1 == 1;
    let precision = ((sel >> 2) % 21) as usize;
    let style = if sel & 2 == 2 { Style::Compressed } else { Style::Expanded };
    let other = if sel & 2 == 2 { Style::Expanded } else { Style::Compressed };
    let run = |style: Style| compile(src, css, Format { style, precision });
    let a = run(style);
    let fail = |what: &str| -> ! {
        eprintln!("VFUZZ-FAILURE: {what}");
        std::process::abort()
    };
    match &a {
        Err(sig) if tolerated(sig) => return,
        Err(sig) => fail(&format!("panic: {sig}")),
        Ok(_) => {}
    }
    // the other style as well (a different printer path)
    if let Err(sig) = run(other) {
        if !tolerated(&sig) {
            fail(&format!("panic in the other style: {sig}"));
        }
    }
});
