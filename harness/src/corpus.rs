//! Inputs of the repository's own spec tests (`runner().ok("…")` / `.err("…")`
//! literals in /repo/rsass/tests/**/*.rs).  Only the inputs are used; the
//! expected outputs are never an oracle here.

use std::path::Path;
use std::sync::OnceLock;

fn walk(dir: &Path, out: &mut Vec<std::path::PathBuf>) {
    let Ok(rd) = std::fs::read_dir(dir) else { return };
    let mut es: Vec<_> = rd.filter_map(|e| e.ok()).map(|e| e.path()).collect();
    es.sort();
    for p in es {
        if p.is_dir() {
            walk(&p, out);
        } else if p.extension().is_some_and(|e| e == "rs") {
            out.push(p);
        }
    }
}

/// parse a Rust string literal starting at the opening quote; returns (value, index after)
fn rust_string(b: &[u8], mut i: usize) -> Option<(Vec<u8>, usize)> {
    if b.get(i) != Some(&b'"') {
        return None;
    }
    i += 1;
    let mut out = vec![];
    while i < b.len() {
        match b[i] {
            b'"' => return Some((out, i + 1)),
            b'\\' => {
                i += 1;
                match *b.get(i)? {
                    b'n' => out.push(b'\n'),
                    b't' => out.push(b'\t'),
                    b'r' => out.push(b'\r'),
                    b'0' => out.push(0),
                    b'\\' => out.push(b'\\'),
                    b'"' => out.push(b'"'),
                    b'\'' => out.push(b'\''),
                    b'x' => {
                        let h = std::str::from_utf8(b.get(i + 1..i + 3)?).ok()?;
                        out.push(u8::from_str_radix(h, 16).ok()?);
                        i += 2;
                    }
                    b'u' => {
                        let end = b[i..].iter().position(|c| *c == b'}')? + i;
                        let h = std::str::from_utf8(&b[i + 2..end]).ok()?;
                        let c = char::from_u32(u32::from_str_radix(h, 16).ok()?)?;
                        let mut buf = [0u8; 4];
                        out.extend_from_slice(c.encode_utf8(&mut buf).as_bytes());
                        i = end;
                    }
                    b'\n' => {
                        while matches!(b.get(i + 1), Some(b' ') | Some(b'\n') | Some(b'\t') | Some(b'\r')) {
                            i += 1;
                        }
                    }
                    _ => return None,
                }
                i += 1;
            }
            c => {
                out.push(c);
                i += 1;
            }
        }
    }
    None
}

/// (input, belongs to a test marked #[ignore])
fn extract(src: &[u8], out: &mut Vec<(Vec<u8>, bool)>) {
    let mut i = 0;
    let mut pending_ignore = false;
    let mut ignored = false;
    while i + 5 < src.len() {
        if src[i..].starts_with(b"#[test]") {
            pending_ignore = false;
            ignored = false;
            i += 7;
            continue;
        }
        if src[i..].starts_with(b"#[ignore") {
            pending_ignore = true;
            i += 8;
            continue;
        }
        if src[i..].starts_with(b"fn ") {
            ignored = pending_ignore;
            pending_ignore = false;
            i += 3;
            continue;
        }
        let m = if src[i..].starts_with(b".ok(") {
            4
        } else if src[i..].starts_with(b".err(") {
            5
        } else {
            i += 1;
            continue;
        };
        let mut j = i + m;
        while matches!(src.get(j), Some(b' ') | Some(b'\n') | Some(b'\t')) {
            j += 1;
        }
        if let Some((s, k)) = rust_string(src, j) {
            out.push((s, ignored));
            i = k;
        } else {
            i += m;
        }
    }
}

fn load() -> &'static Vec<(Vec<u8>, bool)> {
    static C: OnceLock<Vec<(Vec<u8>, bool)>> = OnceLock::new();
    C.get_or_init(|| {
        let mut files = vec![];
        walk(Path::new("/repo/rsass/tests"), &mut files);
        let mut out = vec![];
        for f in files {
            if let Ok(src) = std::fs::read(&f) {
                extract(&src, &mut out);
            }
        }
        out.sort();
        // an input used by both an ignored and a live test counts as live
        out.dedup_by(|b, a| a.0 == b.0);
        out
    })
}

pub fn corpus() -> &'static Vec<Vec<u8>> {
    static C: OnceLock<Vec<Vec<u8>>> = OnceLock::new();
    C.get_or_init(|| load().iter().map(|(b, _)| b.clone()).collect())
}

/// inputs of tests that are not marked #[ignore] (the ones the repository claims to handle), valid UTF-8 only
pub fn corpus_live_str() -> &'static Vec<String> {
    static C: OnceLock<Vec<String>> = OnceLock::new();
    C.get_or_init(|| load().iter().filter(|(_, ign)| !*ign).filter_map(|(b, _)| String::from_utf8(b.clone()).ok()).collect())
}

/// corpus inputs that are valid UTF-8, as strings
pub fn corpus_str() -> &'static Vec<String> {
    static C: OnceLock<Vec<String>> = OnceLock::new();
    C.get_or_init(|| corpus().iter().filter_map(|b| String::from_utf8(b.clone()).ok()).collect())
}
