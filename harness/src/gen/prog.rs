//! G-prog: stylesheet text built from a statement grammar (rules, declarations,
//! nested properties, at-rules, control flow, mixins/functions/content,
//! comments, loads).  Loops are bounded by construction.
use super::{one_of, sel, val};
use proptest::prelude::*;

#[derive(Clone, Copy, Debug)]
pub struct Cfg {
    /// allow constructs that are expected to fail often (@error, undefined names, odd tokens)
    pub wild: bool,
    /// force non-ASCII text into some strings/selectors/comments
    pub unicode: bool,
    pub depth: u32,
    pub size: u32,
}
impl Default for Cfg {
    fn default() -> Self {
        Cfg { wild: true, unicode: true, depth: 4, size: 24 }
    }
}

fn prop_name() -> BoxedStrategy<String> {
    one_of(&["color", "width", "margin", "font", "b", "c", "--x", "--y-z", "-moz-k", "grid-area", "content", "filter", "a#{1}", "#{\"p\"}", "x-#{y}", "*zoom", "_hack"])
}

fn value(cfg: Cfg) -> BoxedStrategy<String> {
    if cfg.wild {
        val::expr()
    } else {
        prop_oneof![val::number(), val::color(), val::string_lit(), val::expr_cfg(false), val::expr_cfg(false)].boxed()
    }
}

fn comment(cfg: Cfg) -> BoxedStrategy<String> {
    let uni = if cfg.unicode { "é☃" } else { "" };
    prop_oneof![
        Just("/* c */".to_string()),
        Just(format!("/* a\n   b{uni} */")),
        Just("/*! keep */".to_string()),
        Just("// silent\n".to_string()),
        Just("/* #{1 + 1} */".to_string()),
        Just(format!("/* multi\n        deep\n  line{uni} */")),
        Just("/**/".to_string()),
        Just("/* * / */".to_string()),
    ]
    .boxed()
}

fn leaf_stmt(cfg: Cfg) -> BoxedStrategy<String> {
    let v = value(cfg);
    prop_oneof![
        8 => (prop_name(), v.clone()).prop_map(|(p, v)| format!("{p}: {v};")),
        2 => (prop_name(), v.clone()).prop_map(|(p, v)| format!("{p}:{v} !important;")),
        1 => if cfg.wild { one_of(&["--x: {a: b};", "--y: [1, 2} ;", "--z:  spaced   value ;", "--w: #{1 + 1};", "--e:;", "--q: \"é\";", "--n: a\n  b;"]) } else { one_of(&["--x: {a: b};", "--y: [1, 2] ;", "--z:  spaced   value ;", "--w: #{1 + 1};", "--q: \"é\";"]) },
        3 => (one_of(&["$a", "$b", "$c", "$b-c", "$b_c"]), v.clone(), one_of(&["", "", " !default", " !global", " !global !default"])).prop_map(|(n, v, f)| format!("{n}: {v}{f};")),
        2 => comment(cfg),
        1 => v.clone().prop_map(|v| format!("@debug {v};")),
        1 => v.clone().prop_map(|v| format!("@warn {v};")),
        1 => one_of(&["@include m;", "@include m(1);", "@include m($x: 2);", "@include n { d: e; }", "@include n using ($s) { d: $s; }", "@include undefined-mixin;", "@include m(1, 2, 3, 4, 5);", "@include meta.load-css(\"x\");", "@content;", "@content(1);", "@return 1;"]),
        1 => if cfg.wild { one_of(&["@extend .c;", "@extend %p;", "@extend .missing !optional;", "@extend a, .d;", "@extend .e-f:hover;"]) } else { one_of(&["@extend .c;", "@extend %p;", "@extend .d;"]) },
        1 => one_of(&["@import \"x.css\";", "@import url(y);", "@import \"http://z\";", "@import \"a\", \"b.css\" screen;", "@use \"sass:math\";", "@use \"sass:math\" as m;", "@use \"sass:string\" as *;", "@forward \"sass:map\";", "@use \"nothing\";", "@import \"nothing\";", "@charset \"utf-8\";", "@namespace svg url(http://w);"]),
        1 => if cfg.wild { one_of(&["@error \"boom\";", "@error $a;", ";", "}", "{", "@", "@else { }", "@if", "$: 1;", "a:;", ": b;", "@include;", "@function;", "&;", "@media;", "@at-root;", "#{", "\\", "/*", "\"", "U+", "...", "@each $x in;", "@for $i from 1;"]) } else { one_of(&[";", "$a: 1;"]) },
    ]
    .boxed()
}

fn media_query() -> BoxedStrategy<String> {
    one_of(&["screen", "print and (min-width: 10px)", "(min-width: #{10px})", "not all", "only screen and (orientation: landscape), print", "(a: b) and (c: d)", "screen and (max-width: $a)", "#{\"tv\"}", "(100px <= width <= 200px)"])
}

pub fn stmt(cfg: Cfg) -> BoxedStrategy<String> {
    let v = value(cfg);
    leaf_stmt(cfg)
        .prop_recursive(cfg.depth, cfg.size, 4, move |inner| {
            let body = proptest::collection::vec(inner.clone(), 0..4).prop_map(|v| v.join("\n"));
            let v = v.clone();
            prop_oneof![
                8 => (sel::list(), body.clone()).prop_map(|(s, b)| format!("{s} {{\n{b}\n}}")),
                2 => (one_of(&["font", "margin", "border", "a-b"]), prop_oneof![Just(String::new()), v.clone()], body.clone()).prop_map(|(p, v, b)| if v.is_empty() { format!("{p}: {{\n{b}\n}}") } else { format!("{p}: {v} {{\n{b}\n}}") }),
                3 => (media_query(), body.clone()).prop_map(|(q, b)| format!("@media {q} {{\n{b}\n}}")),
                2 => (one_of(&["(display: grid)", "not (a: b)", "(a: b) and (c: $a)", "selector(:has(a))", "#{\"(x: y)\"}"]), body.clone()).prop_map(|(q, b)| format!("@supports {q} {{\n{b}\n}}")),
                2 => (one_of(&["@foo", "@foo bar", "@-moz-document url-prefix()", "@layer base", "@container (min-width: 1px)", "@page :first", "@foo #{1 + 1},\n  baz"]), body.clone()).prop_map(|(q, b)| format!("{q} {{\n{b}\n}}")),
                1 => body.clone().prop_map(|b| format!("@font-face {{\n{b}\n}}")),
                1 => (one_of(&["k", "#{\"n\"}", "-x"]), body.clone()).prop_map(|(n, b)| format!("@keyframes {n} {{\n from {{ a: b }}\n 50%, 75.5% {{\n{b}\n}}\n to {{ c: d }}\n}}")),
                2 => (if cfg.wild { prop_oneof![Just(String::new()), sel::complex(), Just("(with: media)".to_string()), Just("(without: all)".to_string()), Just("(without: rule)".to_string())].boxed() } else { prop_oneof![Just(String::new()), sel::complex()].boxed() }, body.clone()).prop_map(|(s, b)| format!("@at-root {s} {{\n{b}\n}}")),
                3 => (v.clone(), body.clone(), proptest::option::of((proptest::option::of(v.clone()), body.clone()))).prop_map(|(c, b, e)| {
                    let mut s = format!("@if {c} {{\n{b}\n}}");
                    if let Some((c2, b2)) = e {
                        match c2 {
                            Some(c2) => s.push_str(&format!(" @else if {c2} {{\n{b2}\n}} @else {{ z: z }}")),
                            None => s.push_str(&format!(" @else {{\n{b2}\n}}")),
                        }
                    }
                    s
                }),
                2 => (one_of(&["$x", "$x, $y", "$a", "$k, $v, $w"]), v.clone(), body.clone()).prop_map(|(n, l, b)| format!("@each {n} in {l} {{\n{b}\n}}")),
                2 => (-3i32..5, -3i32..5, any::<bool>(), one_of(&["", "", "px", "em"]), body.clone()).prop_map(|(a, z, thr, u, b)| format!("@for $i from {a}{u} {} {z} {{\n{b}\n}}", if thr { "through" } else { "to" })),
                1 => (1u32..4, body.clone()).prop_map(|(n, b)| format!("$w: {n} !global;\n@while $w > 0 {{\n$w: $w - 1 !global;\n{b}\n}}")),
                2 => (one_of(&["m", "n", "m($x: 1, $y...)", "n($s: 2)", "m($a, $b: $a)", "o($args...)"]), body.clone()).prop_map(|(n, b)| format!("@mixin {n} {{\n{b}\n@content;\n}}")),
                2 => (one_of(&["f($x: 1)", "g($a, $b: 2, $r...)", "f()", "h($args...)"]), body.clone(), v.clone()).prop_map(|(n, b, r)| format!("@function {n} {{\n{b}\n@return {r};\n}}")),
                1 => (one_of(&["m", "n", "m(1, 2)", "n($s: 3)", "o(1, 2, $k: 3)"]), proptest::option::of(one_of(&["", " using ($p)", " using ($p, $q: 1)"])), body.clone()).prop_map(|(n, u, b)| match u { Some(u) => format!("@include {n}{u} {{\n{b}\n}}"), None => format!("@include {n};") }),
            ]
        })
        .boxed()
}

/// a whole stylesheet
pub fn sheet(cfg: Cfg) -> BoxedStrategy<String> {
    let top = (stmt(cfg), sel::list(), 0u8..8).prop_map(|(st, sel, k)| if k < 6 { format!("{sel} {{\n{st}\n}}") } else { st });
    (proptest::collection::vec(top, 1..6), any::<bool>())
        .prop_map(|(v, uses)| {
            let mut s = String::new();
            if uses {
                s.push_str("@use \"sass:math\";\n@use \"sass:meta\";\n@use \"sass:string\";\n@use \"sass:list\";\n@use \"sass:map\";\n@use \"sass:color\";\n@use \"sass:selector\";\n");
            }
            s.push_str("$a: 1px; $b: (k: v, 2: 3); $c: a b c;\n");
            s.push_str(&v.join("\n"));
            s.push('\n');
            s
        })
        .boxed()
}
