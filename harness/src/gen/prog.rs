//! G-prog: stylesheet text built from a statement grammar (rules, declarations,
//! nested properties, at-rules, control flow, mixins/functions/content,
//! comments, loads).  Loops are bounded by construction.
use super::{one_of, sel, val};
use proptest::prelude::*;

#[derive(Clone, Copy, Debug)]
pub struct Cfg {
    /// allow constructs that are expected to fail often (@error, undefined names, odd tokens)
    pub wild: bool,
    /// force non-ASCII text into some strings/selectors/comments
    pub unicode: bool,
    pub depth: u32,
    pub size: u32,
    /// only constructs whose evaluation cannot fail (C07/C08/C09-style checks want output, not errors)
    pub safe: bool,
}
impl Default for Cfg {
    fn default() -> Self {
        Cfg { wild: true, unicode: true, depth: 4, size: 24, safe: false }
    }
}

fn prop_name() -> BoxedStrategy<String> {
    one_of(&["color", "width", "margin", "font", "b", "c", "--x", "--y-z", "-moz-k", "grid-area", "content", "filter", "a#{1}", "#{\"p\"}", "x-#{y}", "*zoom", "_hack"])
}

pub const SAFE_PRELUDE: &str = "@use \"sass:math\";\n$a: 1px; $b: (k: v, 2: 3); $c: a b c;\n@function f($x: 1) { @return $x * 2; }\n@mixin m($x: 1, $y...) { mx: $x; my: $y; @content; }\n@mixin n($s: 2) { ns: $s; @content($s); }\n";

fn value(cfg: Cfg) -> BoxedStrategy<String> {
    if cfg.safe {
        return val::safe();
    }
    if cfg.wild {
        val::expr()
    } else {
        prop_oneof![val::number(), val::color(), val::string_lit(), val::expr_cfg(false), val::expr_cfg(false)].boxed()
    }
}

fn comment(cfg: Cfg) -> BoxedStrategy<String> {
    let uni = if cfg.unicode { "é☃" } else { "" };
    prop_oneof![
        Just("/* c */".to_string()),
        Just(format!("/* a\n   b{uni} */")),
        Just("/*! keep */".to_string()),
        Just("// silent\n".to_string()),
        Just("/* #{1 + 1} */".to_string()),
        Just(format!("/* multi\n        deep\n  line{uni} */")),
        Just("/**/".to_string()),
        Just("/* * / */".to_string()),
    ]
    .boxed()
}

fn leaf_stmt(cfg: Cfg) -> BoxedStrategy<String> {
    let v = value(cfg);
    if cfg.safe {
        return prop_oneof![
            10 => (one_of(&["color", "width", "margin", "font", "b", "c", "-moz-k", "grid-area", "content", "filter", "a#{1}", "#{\"p\"}", "x-#{y}", "é"]), v.clone()).prop_map(|(p, v)| format!("{p}: {v};")),
            2 => (prop_name(), v.clone()).prop_map(|(p, v)| if p.starts_with("--") { format!("{p}: {v};") } else { format!("{p}:{v} !important;") }),
            2 => one_of(&["--x: {a: b};", "--y: [1, 2] ;", "--z:  spaced   value ;", "--w: #{1 + 1};", "--q: \"é\";", "--r: a  b\n    c;", "--s: 1.50;", "--t: #ABCDEF;", "--u:#{red};"]),
            3 => (one_of(&["$a", "$b", "$c", "$d"]), v.clone(), one_of(&["", "", " !default", " !global"])).prop_map(|(n, v, f)| if n == "$d" || f.is_empty() && n == "$d" { format!("$d: {v}{f};") } else { format!("$d: {v}; {n}: {n}{f};") }),
            3 => comment(cfg),
            1 => v.clone().prop_map(|v| format!("@debug {v};")),
            2 => one_of(&["@include m;", "@include m(1);", "@include m($x: 2);", "@include m(1, 2, 3);", "@include n using ($s) { d: $s; }", "@include n(5) using ($s) { d: $s * 2; }", "@include m { in: content; }"]),
            1 => one_of(&["@import \"x.css\";", "@import url(y);", "@import \"http://z\";", "@import \"b.css\" screen;", "@charset \"utf-8\";"]),
        ]
        .boxed();
    }
    prop_oneof![
        8 => (prop_name(), v.clone()).prop_map(|(p, v)| format!("{p}: {v};")),
        2 => (prop_name(), v.clone()).prop_map(|(p, v)| format!("{p}:{v} !important;")),
        1 => if cfg.wild { one_of(&["--x: {a: b};", "--y: [1, 2} ;", "--z:  spaced   value ;", "--w: #{1 + 1};", "--e:;", "--q: \"é\";", "--n: a\n  b;"]) } else { one_of(&["--x: {a: b};", "--y: [1, 2] ;", "--z:  spaced   value ;", "--w: #{1 + 1};", "--q: \"é\";"]) },
        3 => (one_of(&["$a", "$b", "$c", "$b-c", "$b_c"]), v.clone(), one_of(&["", "", " !default", " !global", " !global !default"])).prop_map(|(n, v, f)| format!("{n}: {v}{f};")),
        2 => comment(cfg),
        1 => v.clone().prop_map(|v| format!("@debug {v};")),
        1 => v.clone().prop_map(|v| format!("@warn {v};")),
        1 => one_of(&["@include m;", "@include m(1);", "@include m($x: 2);", "@include n { d: e; }", "@include n using ($s) { d: $s; }", "@include undefined-mixin;", "@include m(1, 2, 3, 4, 5);", "@include meta.load-css(\"x\");", "@content;", "@content(1);", "@return 1;"]),
        1 => if cfg.wild { one_of(&["@extend .c;", "@extend %p;", "@extend .missing !optional;", "@extend a, .d;", "@extend .e-f:hover;"]) } else { one_of(&["@extend .c;", "@extend %p;", "@extend .d;"]) },
        1 => one_of(&["@import \"x.css\";", "@import url(y);", "@import \"http://z\";", "@import \"a\", \"b.css\" screen;", "@use \"sass:math\";", "@use \"sass:math\" as m;", "@use \"sass:string\" as *;", "@forward \"sass:map\";", "@use \"nothing\";", "@import \"nothing\";", "@charset \"utf-8\";", "@namespace svg url(http://w);"]),
        1 => if cfg.wild { one_of(&["@error \"boom\";", "@error $a;", ";", "}", "{", "@", "@else { }", "@if", "$: 1;", "a:;", ": b;", "@include;", "@function;", "&;", "@media;", "@at-root;", "#{", "\\", "/*", "\"", "U+", "...", "@each $x in;", "@for $i from 1;"]) } else { one_of(&[";", "$a: 1;"]) },
    ]
    .boxed()
}

fn media_query() -> BoxedStrategy<String> {
    one_of(&["screen", "print and (min-width: 10px)", "(min-width: #{10px})", "not all", "only screen and (orientation: landscape), print", "(a: b) and (c: d)", "screen and (max-width: $a)", "#{\"tv\"}", "(100px <= width <= 200px)"])
}

fn safe_stmt(cfg: Cfg) -> BoxedStrategy<String> {
    let v = value(cfg);
    leaf_stmt(cfg)
        .prop_recursive(cfg.depth, cfg.size, 4, move |inner| {
            let body = proptest::collection::vec(inner.clone(), 0..4).prop_map(|v| v.join("\n"));
            let v = v.clone();
            let selector = prop_oneof![4 => sel::safe_list(), 1 => one_of(&["&.k", "&.k", "&:hover", "&:hover", "& > i", "i &", "& b", "&-x", "&__e", ":not(&)", "& + &", "#{\".z\"}", "a#{\"b\"}", ".é", "%ph", "%ph, .real"])];
            prop_oneof![
                8 => (selector, body.clone()).prop_map(|(s, b)| format!("{s} {{\n{b}\n}}")),
                2 => (one_of(&["font", "margin", "border"]), prop_oneof![Just(String::new()), v.clone()], proptest::collection::vec((one_of(&["family", "size", "top", "x-y"]), v.clone()), 1..3)).prop_map(|(p, v, ds)| {
                    let b = ds.iter().map(|(n, v)| format!("{n}: {v};")).collect::<Vec<_>>().join("\n");
                    if v.is_empty() { format!("{p}: {{\n{b}\n}}") } else { format!("{p}: {v} {{\n{b}\n}}") }
                }),
                3 => (one_of(&["screen", "print and (min-width: 10px)", "(min-width: #{10px})", "not all", "only screen and (orientation: landscape), print", "screen and (max-width: $a)"]), body.clone()).prop_map(|(q, b)| format!("@media {q} {{\n{b}\n}}")),
                2 => (one_of(&["(display: grid)", "not (a: b)", "(a: b) and (c: $a)"]), body.clone()).prop_map(|(q, b)| format!("@supports {q} {{\n{b}\n}}")),
                2 => (one_of(&["@foo", "@foo bar", "@layer base", "@container (min-width: 1px)", "@foo #{1 + 1},\n  baz"]), body.clone()).prop_map(|(q, b)| format!("{q} {{\n{b}\n}}")),
                1 => Just("@font-face {\n font-family: \"é\";\n src: url(x.woff);\n}".to_string()),
                1 => (one_of(&["k", "#{\"n\"}"]), v.clone()).prop_map(|(n, v)| format!("@keyframes {n} {{\n from {{ a: b }}\n 50%, 75.5% {{\n w: {v};\n}}\n to {{ c: d }}\n}}")),
                2 => (prop_oneof![Just(String::new()), sel::safe_list()], body.clone()).prop_map(|(s, b)| format!("@at-root {s} {{\n{b}\n}}")),
                3 => (one_of(&["true", "false", "null", "1 < 2", "$a == 1px", "not $a"]), body.clone(), proptest::option::of(body.clone())).prop_map(|(c, b, e)| match e {
                    Some(b2) => format!("@if {c} {{\n{b}\n}} @else {{\n{b2}\n}}"),
                    None => format!("@if {c} {{\n{b}\n}}"),
                }),
                2 => (one_of(&["$x in 1 2", "$x in $c", "$k, $v in $b", "$x in (a, b)", "$x in ()"]), body.clone()).prop_map(|(h, b)| format!("@each {h} {{\n{b}\nex: $x;\n}}").replace("ex: $x;\n}", if h.starts_with("$k") { "ek: $k;\n}" } else { "ex: $x;\n}" })),
                2 => (0i32..3, 0i32..3, any::<bool>(), body.clone()).prop_map(|(a, z, thr, b)| format!("@for $i from {a} {} {z} {{\n{b}\nfi: $i;\n}}", if thr { "through" } else { "to" })),
                1 => (1u32..3, body.clone()).prop_map(|(n, b)| format!("$w: {n} !global;\n@while $w > 0 {{\n$w: $w - 1 !global;\n{b}\n}}")),
                2 => (one_of(&["m", "n using ($s)", "m(1, 2)", "n($s: 3) using ($t)"]), body.clone()).prop_map(|(n, b)| format!("@include {n} {{\n{b}\n}}")),
            ]
        })
        .boxed()
}

pub fn stmt(cfg: Cfg) -> BoxedStrategy<String> {
    if cfg.safe {
        return safe_stmt(cfg);
    }
    let v = value(cfg);
    leaf_stmt(cfg)
        .prop_recursive(cfg.depth, cfg.size, 4, move |inner| {
            let body = proptest::collection::vec(inner.clone(), 0..4).prop_map(|v| v.join("\n"));
            let v = v.clone();
            prop_oneof![
                8 => (sel::list(), body.clone()).prop_map(|(s, b)| format!("{s} {{\n{b}\n}}")),
                2 => (one_of(&["font", "margin", "border", "a-b"]), prop_oneof![Just(String::new()), v.clone()], body.clone()).prop_map(|(p, v, b)| if v.is_empty() { format!("{p}: {{\n{b}\n}}") } else { format!("{p}: {v} {{\n{b}\n}}") }),
                3 => (media_query(), body.clone()).prop_map(|(q, b)| format!("@media {q} {{\n{b}\n}}")),
                2 => (one_of(&["(display: grid)", "not (a: b)", "(a: b) and (c: $a)", "selector(:has(a))", "#{\"(x: y)\"}"]), body.clone()).prop_map(|(q, b)| format!("@supports {q} {{\n{b}\n}}")),
                2 => (one_of(&["@foo", "@foo bar", "@-moz-document url-prefix()", "@layer base", "@container (min-width: 1px)", "@page :first", "@foo #{1 + 1},\n  baz"]), body.clone()).prop_map(|(q, b)| format!("{q} {{\n{b}\n}}")),
                1 => body.clone().prop_map(|b| format!("@font-face {{\n{b}\n}}")),
                1 => (one_of(&["k", "#{\"n\"}", "-x"]), body.clone()).prop_map(|(n, b)| format!("@keyframes {n} {{\n from {{ a: b }}\n 50%, 75.5% {{\n{b}\n}}\n to {{ c: d }}\n}}")),
                2 => (if cfg.wild { prop_oneof![Just(String::new()), sel::complex(), Just("(with: media)".to_string()), Just("(without: all)".to_string()), Just("(without: rule)".to_string())].boxed() } else { prop_oneof![Just(String::new()), sel::complex()].boxed() }, body.clone()).prop_map(|(s, b)| format!("@at-root {s} {{\n{b}\n}}")),
                3 => (v.clone(), body.clone(), proptest::option::of((proptest::option::of(v.clone()), body.clone()))).prop_map(|(c, b, e)| {
                    let mut s = format!("@if {c} {{\n{b}\n}}");
                    if let Some((c2, b2)) = e {
                        match c2 {
                            Some(c2) => s.push_str(&format!(" @else if {c2} {{\n{b2}\n}} @else {{ z: z }}")),
                            None => s.push_str(&format!(" @else {{\n{b2}\n}}")),
                        }
                    }
                    s
                }),
                2 => (one_of(&["$x", "$x, $y", "$a", "$k, $v, $w"]), v.clone(), body.clone()).prop_map(|(n, l, b)| format!("@each {n} in {l} {{\n{b}\n}}")),
                2 => (-3i32..5, -3i32..5, any::<bool>(), one_of(&["", "", "px", "em"]), body.clone()).prop_map(|(a, z, thr, u, b)| format!("@for $i from {a}{u} {} {z} {{\n{b}\n}}", if thr { "through" } else { "to" })),
                1 => (1u32..4, body.clone()).prop_map(|(n, b)| format!("$w: {n} !global;\n@while $w > 0 {{\n$w: $w - 1 !global;\n{b}\n}}")),
                2 => (one_of(&["m", "n", "m($x: 1, $y...)", "n($s: 2)", "m($a, $b: $a)", "o($args...)"]), body.clone()).prop_map(|(n, b)| format!("@mixin {n} {{\n{b}\n@content;\n}}")),
                2 => (one_of(&["f($x: 1)", "g($a, $b: 2, $r...)", "f()", "h($args...)"]), body.clone(), v.clone()).prop_map(|(n, b, r)| format!("@function {n} {{\n{b}\n@return {r};\n}}")),
                1 => (one_of(&["m", "n", "m(1, 2)", "n($s: 3)", "o(1, 2, $k: 3)"]), proptest::option::of(one_of(&["", " using ($p)", " using ($p, $q: 1)"])), body.clone()).prop_map(|(n, u, b)| match u { Some(u) => format!("@include {n}{u} {{\n{b}\n}}"), None => format!("@include {n};") }),
            ]
        })
        .boxed()
}

/// a whole stylesheet
pub fn sheet(cfg: Cfg) -> BoxedStrategy<String> {
    if cfg.safe {
        let top = (stmt(cfg), sel::safe_list(), 0u8..8).prop_map(|(st, sel, k)| if k < 7 { format!("{sel} {{\n{st}\n}}") } else { format!("y {{ z: 1 }}\n@media screen {{ q {{\n{st}\n}} }}") });
        return proptest::collection::vec(top, 1..6).prop_map(|v| format!("{SAFE_PRELUDE}{}\n", v.join("\n"))).boxed();
    }
    let top = (stmt(cfg), sel::list(), 0u8..8).prop_map(|(st, sel, k)| if k < 6 { format!("{sel} {{\n{st}\n}}") } else { st });
    (proptest::collection::vec(top, 1..6), any::<bool>())
        .prop_map(|(v, uses)| {
            let mut s = String::new();
            if uses {
                s.push_str("@use \"sass:math\";\n@use \"sass:meta\";\n@use \"sass:string\";\n@use \"sass:list\";\n@use \"sass:map\";\n@use \"sass:color\";\n@use \"sass:selector\";\n");
            }
            s.push_str("$a: 1px; $b: (k: v, 2: 3); $c: a b c;\n");
            s.push_str(&v.join("\n"));
            s.push('\n');
            s
        })
        .boxed()
}
