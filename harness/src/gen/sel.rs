//! G-sel: selector text (unstructured variant, for robustness/framing checks).
use super::one_of;
use proptest::prelude::*;

pub fn type_sel() -> BoxedStrategy<String> {
    one_of(&["a", "b", "div", "p", "*", "ns|a", "*|b", "|c", "h1"])
}
pub fn subclass() -> BoxedStrategy<String> {
    prop_oneof![
        4 => one_of(&[".c", ".d", ".e-f", "._g", ".\\31 x", ".é", "#i", "#j-k", "%p", "%q"]),
        2 => one_of(&["[k]", "[k=v]", "[k~=\"v w\"]", "[k|='v']", "[k^=v i]", "[k$=v]", "[k*=v s]", "[ns|k=v]"]),
        2 => one_of(&[":hover", ":focus", ":first-child", ":nth-child(2n+1)", ":nth-child(odd of .c)", ":nth-of-type(-n+3)", ":lang(en)", ":-moz-x"]),
        2 => one_of(&[":not(.c)", ":not(a, .d)", ":is(.c, #i)", ":where(a > b)", ":matches(.x)", ":has(> img)", ":has(%p)", ":not(%p)", ":is(%p, .c)", ":host(.h)", ":host-context(a b)", ":any(a,b)", ":not(:not(.c))", ":is(:where(.a))"]),
    ]
    .boxed()
}
pub fn pseudo_element() -> BoxedStrategy<String> {
    one_of(&["::before", "::after", "::selection", "::-webkit-y(z)", "::slotted(.s)", ":before"])
}
pub fn simple() -> BoxedStrategy<String> {
    prop_oneof![2 => type_sel(), 6 => subclass(), 1 => pseudo_element()].boxed()
}

/// a compound selector in a valid order: [type | &...] subclass* pseudo-element?
pub fn compound() -> BoxedStrategy<String> {
    (
        prop_oneof![5 => Just(String::new()), 4 => type_sel(), 1 => one_of(&["&", "&-x", "&.k", "&:hover", "&__e", "&#{1}", "#{&}", "#{\".z\"}", "a#{\"b\"}"])],
        proptest::collection::vec(subclass(), 0..3),
        proptest::option::weighted(0.15, pseudo_element()),
    )
        .prop_map(|(t, subs, pe)| {
            let mut s = t;
            for x in subs {
                s.push_str(&x);
            }
            if let Some(p) = pe {
                s.push_str(&p);
            }
            if s.is_empty() {
                s.push_str(".c");
            }
            s
        })
        .boxed()
}

pub fn complex() -> BoxedStrategy<String> {
    (proptest::collection::vec((compound(), one_of(&[" ", " ", " > ", " + ", " ~ ", ">", "+", "~", " >> "])), 0..3), compound(), prop_oneof![9 => Just(""), 1 => Just("> "), 1 => Just("+ "), 1 => Just("~ ")], prop_oneof![12 => Just(""), 1 => Just(" >"), 1 => Just(" +")])
        .prop_map(|(pre, last, lead, trail)| {
            let mut s = String::from(lead);
            for (c, comb) in pre {
                s.push_str(&c);
                s.push_str(&comb);
            }
            s.push_str(&last);
            s.push_str(trail);
            s
        })
        .boxed()
}

pub fn list() -> BoxedStrategy<String> {
    proptest::collection::vec(complex(), 1..4).prop_map(|v| v.join(", ")).boxed()
}

/// selector lists without `&`, placeholders or interpolation (usable at top level, never an error)
pub fn safe_list() -> BoxedStrategy<String> {
    let sub = prop_oneof![
        4 => one_of(&[".c", ".d", ".e-f", "._g", ".\\31 x", ".é", "#i", "#j-k"]),
        2 => one_of(&["[k]", "[k=v]", "[k~=\"v w\"]", "[k|='v']", "[k^=v i]", "[k$=v]", "[k*=\"é\"]"]),
        2 => one_of(&[":hover", ":focus", ":first-child", ":nth-child(2n+1)", ":nth-of-type(-n+3)", ":lang(en)", ":not(.c)", ":is(.c, #i)", ":where(a > b)", ":has(> img)"]),
    ];
    let compound = (prop_oneof![5 => Just(String::new()), 4 => one_of(&["a", "b", "div", "p", "*", "h1"])], proptest::collection::vec(sub, 0..3), proptest::option::weighted(0.15, one_of(&["::before", "::after", "::selection"]))).prop_map(|(t, subs, pe)| {
        let mut s = t;
        for x in subs {
            s.push_str(&x);
        }
        if let Some(p) = pe {
            s.push_str(&p);
        }
        if s.is_empty() {
            s.push_str(".c");
        }
        s
    });
    let complex = (proptest::collection::vec((compound.clone(), one_of(&[" ", " ", " > ", " + ", " ~ ", ">", "+", "~"])), 0..3), compound).prop_map(|(pre, last)| {
        let mut s = String::new();
        for (c, comb) in pre {
            s.push_str(&c);
            s.push_str(&comb);
        }
        s.push_str(&last);
        s
    });
    proptest::collection::vec(complex, 1..4).prop_map(|v| v.join(", ")).boxed()
}
