//! G-val: SassScript value / expression text.
use super::one_of;
use proptest::prelude::*;

pub const UNITS: &[&str] = &["", "", "", "px", "em", "%", "in", "cm", "mm", "pt", "pc", "q", "deg", "rad", "grad", "turn", "s", "ms", "hz", "khz", "dpi", "dpcm", "dppx", "rem", "vw", "fr", "x", "foo"];

pub fn number() -> BoxedStrategy<String> {
    prop_oneof![
        6 => (-20i32..200, proptest::sample::select(UNITS)).prop_map(|(n, u)| format!("{n}{u}")),
        3 => (0u32..1000, 1u32..4, proptest::sample::select(UNITS)).prop_map(|(n, d, u)| format!("{}{u}", n as f64 / 10f64.powi(d as i32))),
        1 => one_of(&["0", "-0", "1e3", "1e-7", "1.5e+2px", ".5", "-.5em", "+3", "100%", "0.1", "1e100", "1e308", "-1e308", "123456789012345678901234567890", "0.000000000001", "9007199254740993", "1e-320", "4.2E1"]),
        1 => one_of(&["math.div(1,0)", "math.div(-1,0)", "math.div(0,0)", "calc(infinity)", "calc(NaN)", "calc(-infinity)", "math.$pi", "math.$e", "math.$epsilon", "math.$max-safe-integer", "math.$min-number", "math.$max-number"]),
    ]
    .boxed()
}

pub fn color() -> BoxedStrategy<String> {
    prop_oneof![
        3 => one_of(&["red", "blue", "transparent", "rebeccapurple", "#abc", "#abcd", "#a1b2c3", "#A1B2C3d4", "#fff", "#000", "white", "black", "Red", "lime"]),
        2 => (0i32..300, 0i32..300, 0i32..300).prop_map(|(r, g, b)| format!("rgb({r}, {g}, {b})")),
        1 => (0i32..300, 0i32..120, 0i32..120, 0u32..12).prop_map(|(r, g, b, a)| format!("rgba({r}, {g}%, {b}, {})", a as f64 / 10.0)),
        2 => (-400i32..800, -20i32..130, -20i32..130).prop_map(|(h, s, l)| format!("hsl({h}, {s}%, {l}%)")),
        1 => (-400i32..800, 0i32..100, 0i32..100, 0u32..11).prop_map(|(h, s, l, a)| format!("hsla({h}deg {s}% {l}% / {})", a as f64 / 10.0)),
        1 => (-400i32..800, 0i32..100, 0i32..100).prop_map(|(h, w, b)| format!("hwb({h} {w}% {b}%)")),
        1 => one_of(&["hsl(math.div(0,0), 50%, 50%)", "hsl(calc(NaN) 10% 20%)", "rgb(calc(infinity), 0, 0)", "hsl(0 calc(infinity) 50%)", "hwb(calc(NaN) 10% 10%)", "rgba(red, 0.5)", "rgb(1 2 3 / 0.5)", "rgb(var(--r), 2, 3)", "hsl(from red h s l)"]),
    ]
    .boxed()
}

pub fn string_lit() -> BoxedStrategy<String> {
    prop_oneof![
        3 => one_of(&["\"a\"", "'b'", "\"\"", "''", "\"it's\"", "'say \"hi\"'", "\"a b\"", "\"\\\"\"", "\"\\\\\"", "\"\\a \"", "\"\\61 b\"", "\"é\"", "\"日本\"", "\"😀\"", "\"a\\\nb\"", "\"\\0\"", "\"\\110000\"", "\"\\d800\"", "\"\\7f\"", "\"#{1+1}\"", "\"x#{\"y\"}z\"", "\"\\#{\"", "\"\u{7f}\"", "\"\u{e000}\""]),
        2 => one_of(&["foo", "bar-baz", "_x", "a\\ b", "\\31 a", "é", "日本", "--x", "-moz-x", "important", "null-ish", "and-so", "U+26", "u+0-7f", "U+2??", "url(x.png)", "url(\"x y\")", "url(a#{1}b)", "x#{1}y", "#{a}", "#{\"q\"}"]),
        1 => "[a-z' {}\u{80}-\u{ff}]{0,6}".prop_map(|s| format!("\"{s}\"")),
    ]
    .boxed()
}

pub fn var() -> BoxedStrategy<String> {
    one_of(&["$a", "$b", "$c", "$a", "$b-c", "$b_c", "$undefined", "math.$pi", "$args"])
}

pub fn leaf() -> BoxedStrategy<String> {
    leaf_cfg(true)
}

pub fn leaf_cfg(wild: bool) -> BoxedStrategy<String> {
    prop_oneof![
        5 => number(),
        3 => string_lit(),
        2 => color(),
        2 => if wild { var() } else { one_of(&["$a", "$b", "$c", "math.$pi"]) },
        1 => if wild {
            one_of(&["true", "false", "null", "()", "[]", "&", "(a: 1)", "(a: 1, b: (c: 2))", "!important", "not", "*", "%", "/", "+", "-", "=", ","])
        } else {
            one_of(&["true", "false", "null", "()", "[]", "&", "(a: 1)", "(a: 1, b: (c: 2))"])
        },
    ]
    .boxed()
}

pub const FUNCS: &[&str] = &[
    "inspect", "length", "nth", "join", "append", "zip", "index", "list-separator", "is-bracketed", "set-nth", "map-get", "map-merge", "map-keys", "map-values", "map-has-key", "map-remove",
    "str-length", "str-index", "str-insert", "str-slice", "to-upper-case", "to-lower-case", "quote", "unquote", "unique-id", "percentage", "round", "ceil", "floor", "abs", "min", "max", "random", "unit", "unitless", "comparable",
    "red", "green", "blue", "hue", "saturation", "lightness", "alpha", "opacity", "mix", "lighten", "darken", "saturate", "desaturate", "grayscale", "complement", "invert", "adjust-hue", "adjust-color", "scale-color", "change-color", "ie-hex-str", "rgba", "rgb", "hsl", "hsla", "hwb",
    "opacify", "transparentize", "fade-in", "fade-out", "type-of", "if", "feature-exists", "variable-exists", "global-variable-exists", "function-exists", "mixin-exists", "get-function", "call", "content-exists", "keywords",
    "selector-nest", "selector-append", "selector-extend", "selector-replace", "selector-unify", "is-superselector", "simple-selectors", "selector-parse",
    "math.div", "math.pow", "math.sqrt", "math.log", "math.hypot", "math.sin", "math.cos", "math.tan", "math.asin", "math.acos", "math.atan", "math.atan2", "math.clamp", "math.max", "math.min", "math.percentage", "math.round", "math.random", "math.is-unitless", "math.compatible", "math.unit",
    "string.slice", "string.insert", "string.index", "string.length", "string.quote", "string.unquote", "string.to-upper-case", "string.unique-id", "string.split",
    "list.nth", "list.set-nth", "list.join", "list.append", "list.zip", "list.index", "list.separator", "list.slash", "list.is-bracketed", "list.length",
    "map.get", "map.set", "map.merge", "map.remove", "map.keys", "map.values", "map.has-key", "map.deep-merge", "map.deep-remove",
    "color.adjust", "color.scale", "color.change", "color.mix", "color.invert", "color.hwb", "color.whiteness", "color.blackness", "color.alpha", "color.red", "color.hue", "color.complement", "color.grayscale", "color.ie-hex-str",
    "selector.nest", "selector.append", "selector.extend", "selector.replace", "selector.unify", "selector.is-superselector", "selector.simple-selectors", "selector.parse",
    "meta.inspect", "meta.type-of", "meta.call", "meta.get-function", "meta.keywords", "meta.variable-exists", "meta.function-exists", "meta.module-variables", "meta.module-functions", "meta.calc-name", "meta.calc-args", "meta.feature-exists",
    "calc", "min", "max", "clamp", "var", "env", "url", "element", "expression", "progid:foo", "f", "g", "undefined-fn", "translate", "not", "-webkit-calc",
];

pub const BINOPS: &[&str] = &[" + ", " - ", " * ", " / ", " % ", " == ", " != ", " < ", " > ", " <= ", " >= ", " and ", " or ", "+", "-", "/", "*", " ", ", ", "/ ", " -", "- ", "=", " = "];

pub const BINOPS_TAME: &[&str] = &[" + ", " - ", " * ", " / ", " % ", " == ", " != ", " < ", " > ", " <= ", " >= ", " and ", " or ", " ", ", "];

pub fn expr() -> BoxedStrategy<String> {
    expr_cfg(true)
}

/// recursive expression text
pub fn expr_cfg(wild: bool) -> BoxedStrategy<String> {
    let ops = if wild { BINOPS } else { BINOPS_TAME };
    leaf_cfg(wild)
        .prop_recursive(4, 24, 4, move |inner| {
            prop_oneof![
                4 => (inner.clone(), proptest::sample::select(ops), inner.clone()).prop_map(|(a, o, b)| format!("{a}{o}{b}")),
                2 => inner.clone().prop_map(|a| format!("({a})")),
                1 => inner.clone().prop_map(|a| format!("[{a}]")),
                1 => inner.clone().prop_map(|a| format!("-{a}")),
                1 => inner.clone().prop_map(|a| format!("not {a}")),
                1 => inner.clone().prop_map(|a| format!("#{{{a}}}")),
                1 => inner.clone().prop_map(|a| format!("a#{{{a}}}b")),
                1 => inner.clone().prop_map(|a| format!("\"q#{{{a}}}\"")),
                3 => (proptest::sample::select(FUNCS), proptest::collection::vec(inner.clone(), 0..4)).prop_map(|(f, a)| format!("{f}({})", a.join(", "))),
                1 => (proptest::sample::select(FUNCS), inner.clone(), inner.clone()).prop_map(|(f, a, b)| format!("{f}({a}, $x: {b})")),
                1 => (proptest::sample::select(FUNCS), inner.clone()).prop_map(|(f, a)| format!("{f}({a}...)")),
                1 => (inner.clone(), inner.clone()).prop_map(|(a, b)| format!("({a}: {b})")),
                1 => (inner.clone(), inner.clone(), inner.clone()).prop_map(|(a, b, c)| format!("({a}: {b}, k: {c})")),
                1 => (inner.clone(), inner.clone(), inner.clone()).prop_map(|(a, b, c)| format!("if({a}, {b}, {c})")),
                1 => (inner.clone(), inner.clone()).prop_map(|(a, b)| format!("calc({a} + {b})")),
                1 => (inner.clone(), inner.clone()).prop_map(|(a, b)| format!("calc({a} * ({b} - 1px))")),
                1 => (inner.clone(), inner.clone()).prop_map(|(a, b)| format!("clamp({a}, {b}, 10px)")),
            ]
        })
        .boxed()
}

/// boundary / degenerate values of every type (all parse as expressions)
pub const EXTREME: &[&str] = &[
    "0", "-0", "1", "-1", "2", "0.5", "-0.5", "1.5", "2.5", "0.1", "1e-10", "1e-320", "1e308", "-1e308", "1e19", "-1e19", "9223372036854775807", "-9223372036854775808", "9223372036854775808", "18446744073709551616", "4294967296", "2147483648", "-2147483649", "255", "256", "127", "128", "-128", "-129", "65536", "1e15", "9007199254740992",
    "math.div(1,0)", "math.div(-1,0)", "math.div(0,0)", "math.$max-number", "math.$min-number", "math.$epsilon",
    "1px", "0px", "-1px", "1.5px", "1e19px", "math.div(1px,0)", "math.div(0px,0)", "1%", "100%", "50%", "-50%", "150%", "1deg", "360deg", "-720deg", "1e10deg", "1turn", "1rad", "1s", "1ms", "1em", "1in", "1x", "1px*1px", "math.div(1,1px)", "math.div(1px*1em,1s)", "1px*1px*1px*1px",
    "\"\"", "''", "\"a\"", "a", "\"\\\\\"", "\"\\a\"", "\"é\"", "\"😀\"", "\"a b\"", "\"1\"", "\"#{1}\"", "unquote(\"\")", "unquote(\"a b\")", "unquote(\"\\\\\")", "\"abcdefghij\"", "-a", "--a", "a\\ b",
    "()", "[]", "(1,)", "[1]", "(1 2)", "(1, 2)", "[1, 2]", "(1 (2 3) ())", "((), ())", "list.slash(1, 2)", "(a: 1)", "(a: 1, b: 2)", "(1: 2)", "((): ())", "(a: (b: (c: d)))", "map.merge((), ())", "(null,)", "(null null)", "list.join((), (), slash)", "list.join((), (), $separator: slash)", "list.join((), (), comma)", "list.join((), 1, slash)", "list.join([], (), $bracketed: true)", "list.slash(1, 2, 3)", "list.slash((), ())", "list.join((), (), space)", "list.append((), (), slash)",
    "red", "#000", "#fff", "#abcd", "transparent", "rgba(0,0,0,0)", "hsl(0, 0%, 0%)", "hsl(math.div(0,0), 50%, 50%)", "hsl(0, math.div(0,0), 50%)", "hsl(0, 50%, math.div(1,0))", "rgb(math.div(0,0), 0, 0)", "rgba(1, 2, 3, math.div(0,0))", "hwb(math.div(0,0) 10% 10%)", "hwb(0 60% 60%)", "hsl(1e20, 100%, 50%)", "rgb(1e20, -1e20, 0)", "hsl(0, 200%, 200%)", "hsl(0, -5%, -5%)", "lighten(red, 100%)",
    "true", "false", "null", "&", "get-function(\"red\")", "meta.get-function(\"div\", $module: \"math\")", "get-function(\"f\")", "$args", "$a", "$undefined", "var(--x)", "calc(1px + 1%)", "calc(1px + var(--x))", "calc(infinity * 1px)", "calc(NaN)", "1 + 1", "a + b", "1/2", "(1/2)", "1 2 3...", "$kw...", "!important",
];

pub fn extreme() -> BoxedStrategy<String> {
    proptest::sample::select(EXTREME).prop_map(|s| s.to_string()).boxed()
}

/// values whose evaluation never fails (given `$a: 1px; $b: (k: v, 2: 3); $c: a b c;` and `f`)
pub fn safe() -> BoxedStrategy<String> {
    let num = prop_oneof![
        4 => (-20i32..200, proptest::sample::select(&["", "", "px", "em", "%", "deg", "s", "rem", "fr", "x"][..])).prop_map(|(n, u)| format!("{n}{u}")),
        3 => (0u32..100000, 1u32..6, proptest::sample::select(&["", "px", "%", "em"][..])).prop_map(|(n, d, u)| format!("{}{u}", n as f64 / 10f64.powi(d as i32))),
        1 => one_of(&["0", ".5", "-.25em", "1e3", "1e-3", "0.00001", "1234567.891", "0.30000000000000004", "100%", "-0.5", "+.5"]),
    ];
    let uni = one_of(&["\"é\"", "\"日本\"", "\"😀 x\"", "'ü'", "ünï", "\"a é\"", "\"\u{a0}\"", "'☃'"]);
    let tricky = one_of(&["\"\\e9\"", "\"\\2603 \"", "\"a\\\"b\"", "\"it's\"", "'q\"q'", "\"\\\\\"", "\"\\a\"", "\"tab\\9 x\""]);
    let leaf = prop_oneof![
        20 => num,
        8 => color(),
        8 => one_of(&["\"a\"", "'b'", "\"\"", "\"a b\"", "\"x#{1+1}y\"", "foo", "bar-baz", "_x", "-moz-x", "a\\ b", "\\31 a", "x#{1}y", "#{a}b", "url(x.png)", "url(\"x y\")", "var(--x)", "var(--x, 1px)", "U+26", "!important", "true", "false", "null", "a, b", "a b", "[a b]", "(a, b)", "1 2 3", "1px solid red", "a / b", "10px/2px"]),
        8 => uni,
        1 => tricky,
        2 => one_of(&["unquote(\"x\\a y\")", "#{\"l1\\a l2\"}", "\"q\\a r\"", "unquote(\"t\\9 u\")", "string.unquote(\"v\\d\\a w\")"]),
        8 => one_of(&["$a", "$c", "$a * 2", "$a + 1px", "nth($c, 2)", "map-get($b, k)", "length($c)", "f(2)", "f($a)", "1 + 2", "2 * 3.5", "10 % 3", "7 - 2", "\"a\" + \"b\"", "a + b", "1 + a", "math.div(10px, 4)", "math.div(1, 3)", "percentage(0.5)", "round(1.5)", "rgba(#abc, 0.5)", "lighten(red, 10%)", "mix(red, blue)", "darken(#abc, 5%)", "adjust-hue(red, 20deg)", "if(true, a, b)", "str-index(\"abc\", \"b\")", "unquote(\"x y\")", "quote(a)", "to-upper-case(\"é a\")", "calc(1px + 2%)", "calc(1px * 3)", "min(1px, 2px)", "max(1%, 2px)", "clamp(1px, 2px, 3px)", "type-of(1)", "inspect($b)", "join($c, d e)", "append($c, d, comma)", "1 == 1", "1 < 2", "not true", "true and false", "null or 1", "-$a", "+$a", "(1 + 2) * 3", "1/3", "(1/3)", "math.$pi", "1e3 * 1e3", "0.1 + 0.2", "math.div(1, 0)", "grayscale(#abc)", "invert(red)", "transparentize(red, .5)", "hsl(10, 20%, 30%)", "hsla(10, 20%, 30%, .4)", "rgb(1.5, 2.5, 3.5)", "#AbCdEf", "#abcf", "red", "Red", "transparent"]),
    ];
    leaf.prop_recursive(2, 8, 3, |inner| {
        prop_oneof![
            2 => (inner.clone(), inner.clone()).prop_map(|(a, b)| format!("{a} {b}")),
            2 => (inner.clone(), inner.clone()).prop_map(|(a, b)| format!("{a}, {b}")),
            1 => inner.clone().prop_map(|a| format!("({a})")),
            1 => inner.clone().prop_map(|a| format!("[{a}]")),
            1 => inner.clone().prop_map(|a| format!("a#{{{a}}}b")),
            1 => inner.clone().prop_map(|a| format!("\"q #{{{a}}}\"")),
            1 => inner.clone().prop_map(|a| format!("g({a})")),
            1 => (inner.clone(), inner.clone()).prop_map(|(a, b)| format!("if(false, {a}, {b})")),
        ]
    })
    .boxed()
}
