//! G-graph: small module graphs (files connected by @import/@use/@forward/meta.load-css with
//! different spellings of the same URL) and the reference loader model.
use proptest::prelude::*;
use serde::{Deserialize, Serialize};

#[derive(Clone, Copy, Debug, Serialize, Deserialize, PartialEq, Eq, Hash, PartialOrd, Ord)]
pub enum Kind {
    Use,
    Forward,
    Import,
    LoadCss,
}
pub const KINDS: &[Kind] = &[Kind::Use, Kind::Forward, Kind::Import, Kind::LoadCss];

#[derive(Clone, Debug, Serialize, Deserialize, PartialEq, Eq, Hash)]
pub struct Load {
    pub kind: Kind,
    pub target: usize,
    pub spelling: usize,
}

/// file 0 is the root `a.scss`; the others are partials `_b.scss`, `_c.scss`, `_d.scss`
#[derive(Clone, Debug, Serialize, Deserialize, PartialEq, Eq, Hash)]
pub struct Graph {
    pub files: Vec<Vec<Load>>,
    /// css[i]: file i (i >= 1) is a plain CSS file `<name>.css` (it loads nothing, whatever `files[i]` says)
    #[serde(default)]
    pub css: Vec<bool>,
}

pub const NAMES: &[&str] = &["a", "b", "c", "d"];
pub const N_SPELLINGS: usize = 6;

pub fn file_name(i: usize) -> String {
    if i == 0 { "a.scss".into() } else { format!("_{}.scss", NAMES[i]) }
}


/// equivalent spellings of the URL of file `t`
pub fn spell(t: usize, s: usize) -> String {
    let n = NAMES[t];
    match s % N_SPELLINGS {
        0 => n.to_string(),
        1 => format!("./{n}"),
        2 => format!("d/../{n}"),
        3 => format!("d/./../{n}"),
        4 => {
            if t == 0 { format!("{n}.scss") } else { format!("_{n}") }
        }
        _ => {
            if t == 0 { format!("./{n}.scss") } else { format!("_{n}.scss") }
        }
    }
}

impl Graph {
    pub fn is_css(&self, f: usize) -> bool {
        f > 0 && self.css.get(f).copied().unwrap_or(false)
    }
    pub fn name_of(&self, f: usize) -> String {
        if self.is_css(f) { format!("{}.css", NAMES[f]) } else { file_name(f) }
    }
    /// spelling of the URL of file `t` as loaded from this graph
    pub fn url(&self, t: usize, s: usize) -> String {
        if self.is_css(t) {
            let n = NAMES[t];
            return match s % N_SPELLINGS {
                4 => format!("{n}.css"),
                5 => format!("./{n}.css"),
                _ => spell(t, s),
            };
        }
        spell(t, s)
    }
    /// loads of a file in the order they are written: @use, @forward, then @import and load-css in given order
    pub fn ordered(&self, f: usize) -> Vec<&Load> {
        if self.is_css(f) {
            return vec![];
        }
        let l = &self.files[f];
        let mut v: Vec<&Load> = l.iter().filter(|x| x.kind == Kind::Use).collect();
        v.extend(l.iter().filter(|x| x.kind == Kind::Forward));
        v.extend(l.iter().filter(|x| matches!(x.kind, Kind::Import | Kind::LoadCss)));
        v
    }
    pub fn source(&self, f: usize) -> String {
        let mut s = String::new();
        let loads = self.ordered(f);
        if loads.iter().any(|l| l.kind == Kind::LoadCss) {
            s.push_str("@use \"sass:meta\";\n");
        }
        for (i, l) in loads.iter().enumerate() {
            let url = self.url(l.target, l.spelling);
            match l.kind {
                Kind::Use => s.push_str(&format!("@use \"{url}\" as n{i};\n")),
                Kind::Forward => s.push_str(&format!("@forward \"{url}\";\n")),
                Kind::Import => s.push_str(&format!("@import \"{url}\";\n")),
                Kind::LoadCss => s.push_str(&format!("@include meta.load-css(\"{url}\");\n")),
            }
        }
        s.push_str(&format!(".m_{} {{ k: v }}\n", NAMES[f]));
        s
    }
    pub fn sources(&self) -> Vec<(String, String)> {
        (0..self.files.len()).map(|f| (self.name_of(f), self.source(f))).collect()
    }
    pub fn edges(&self) -> usize {
        (0..self.files.len()).map(|f| self.ordered(f).len()).sum()
    }
}

#[derive(Clone, Debug, PartialEq)]
pub enum Outcome {
    /// finishes; how often each file's own CSS is emitted
    Done(Vec<usize>),
    /// a file that is being loaded is loaded again
    Loop,
    /// too many steps for the model (exponential @import fan-out); not judged
    TooLarge,
}

/// reference loader: loading stack over canonical file identities, cache of finished modules
pub fn model(g: &Graph) -> Outcome {
    struct St<'a> {
        g: &'a Graph,
        stack: Vec<usize>,
        done: Vec<bool>,
        emitted: Vec<usize>,
        steps: usize,
    }
    enum Stop {
        Loop,
        TooLarge,
    }
    fn exec(st: &mut St, f: usize) -> Result<(), Stop> {
        st.steps += 1;
        if st.steps > 5000 {
            return Err(Stop::TooLarge);
        }
        st.stack.push(f);
        let loads: Vec<Load> = st.g.ordered(f).into_iter().cloned().collect();
        for l in loads {
            if st.stack.contains(&l.target) {
                return Err(Stop::Loop);
            }
            match l.kind {
                Kind::Import => exec(st, l.target)?,
                Kind::Use | Kind::Forward | Kind::LoadCss => {
                    if !st.done[l.target] {
                        exec(st, l.target)?;
                        st.done[l.target] = true;
                    } else if l.kind == Kind::LoadCss {
                        // the css of a loaded module is included again by load-css; not counted
                    }
                }
            }
        }
        st.emitted[f] += 1;
        st.stack.pop();
        Ok(())
    }
    let n = g.files.len();
    let mut st = St { g, stack: vec![], done: vec![false; n], emitted: vec![0; n], steps: 0 };
    match exec(&mut st, 0) {
        Ok(()) => Outcome::Done(st.emitted),
        Err(Stop::Loop) => Outcome::Loop,
        Err(Stop::TooLarge) => Outcome::TooLarge,
    }
}

pub fn load(nfiles: usize, kinds: &'static [Kind]) -> impl Strategy<Value = Load> {
    (proptest::sample::select(kinds), 0..nfiles, 0..N_SPELLINGS).prop_map(|(kind, target, spelling)| Load { kind, target, spelling })
}

/// random graphs over `nfiles` files with up to `max_loads` loads per file
pub fn graphs(nfiles: usize, max_loads: usize, kinds: &'static [Kind]) -> impl Strategy<Value = Graph> {
    (proptest::collection::vec(proptest::collection::vec(load(nfiles, kinds), 0..=max_loads), nfiles), proptest::collection::vec(proptest::bool::weighted(0.2), nfiles)).prop_map(|(files, css)| Graph { files, css })
}

/// every graph over `nfiles` files with at most one load per file (each load: any kind, any target, spellings thinned by `spell_step`)
pub fn enumerate_one_load(nfiles: usize, kinds: &'static [Kind], spellings: &'static [usize]) -> Vec<Graph> {
    let mut options: Vec<Option<Load>> = vec![None];
    for k in kinds {
        for t in 0..nfiles {
            for s in spellings {
                options.push(Some(Load { kind: *k, target: t, spelling: *s }));
            }
        }
    }
    let mut out = vec![];
    let mut idx = vec![0usize; nfiles];
    loop {
        out.push(Graph { files: idx.iter().map(|i| options[*i].clone().into_iter().collect()).collect(), css: vec![] });
        let mut k = 0;
        loop {
            if k == nfiles {
                return out;
            }
            idx[k] += 1;
            if idx[k] < options.len() {
                break;
            }
            idx[k] = 0;
            k += 1;
        }
    }
}
