//! Shared generators (proptest strategies producing Sass source text).
pub mod graph;
pub mod prog;
pub mod sel;
pub mod val;

use proptest::prelude::*;

/// pick one of a fixed list of strings
pub fn one_of(items: &'static [&'static str]) -> BoxedStrategy<String> {
    proptest::sample::select(items).prop_map(|s| s.to_string()).boxed()
}
