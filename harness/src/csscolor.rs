//! Reference CSS colour model: the named-colour table of CSS Color Level 4
//! (written out from the specification, not taken from rsass), hex decoding
//! and hsl/hwb -> rgb conversion.

pub const NAMED: &[(&str, u32)] = &[
    ("aliceblue", 0xf0f8ff), ("antiquewhite", 0xfaebd7), ("aqua", 0x00ffff), ("aquamarine", 0x7fffd4), ("azure", 0xf0ffff),
    ("beige", 0xf5f5dc), ("bisque", 0xffe4c4), ("black", 0x000000), ("blanchedalmond", 0xffebcd), ("blue", 0x0000ff),
    ("blueviolet", 0x8a2be2), ("brown", 0xa52a2a), ("burlywood", 0xdeb887), ("cadetblue", 0x5f9ea0), ("chartreuse", 0x7fff00),
    ("chocolate", 0xd2691e), ("coral", 0xff7f50), ("cornflowerblue", 0x6495ed), ("cornsilk", 0xfff8dc), ("crimson", 0xdc143c),
    ("cyan", 0x00ffff), ("darkblue", 0x00008b), ("darkcyan", 0x008b8b), ("darkgoldenrod", 0xb8860b), ("darkgray", 0xa9a9a9),
    ("darkgreen", 0x006400), ("darkgrey", 0xa9a9a9), ("darkkhaki", 0xbdb76b), ("darkmagenta", 0x8b008b), ("darkolivegreen", 0x556b2f),
    ("darkorange", 0xff8c00), ("darkorchid", 0x9932cc), ("darkred", 0x8b0000), ("darksalmon", 0xe9967a), ("darkseagreen", 0x8fbc8f),
    ("darkslateblue", 0x483d8b), ("darkslategray", 0x2f4f4f), ("darkslategrey", 0x2f4f4f), ("darkturquoise", 0x00ced1), ("darkviolet", 0x9400d3),
    ("deeppink", 0xff1493), ("deepskyblue", 0x00bfff), ("dimgray", 0x696969), ("dimgrey", 0x696969), ("dodgerblue", 0x1e90ff),
    ("firebrick", 0xb22222), ("floralwhite", 0xfffaf0), ("forestgreen", 0x228b22), ("fuchsia", 0xff00ff), ("gainsboro", 0xdcdcdc),
    ("ghostwhite", 0xf8f8ff), ("gold", 0xffd700), ("goldenrod", 0xdaa520), ("gray", 0x808080), ("green", 0x008000),
    ("greenyellow", 0xadff2f), ("grey", 0x808080), ("honeydew", 0xf0fff0), ("hotpink", 0xff69b4), ("indianred", 0xcd5c5c),
    ("indigo", 0x4b0082), ("ivory", 0xfffff0), ("khaki", 0xf0e68c), ("lavender", 0xe6e6fa), ("lavenderblush", 0xfff0f5),
    ("lawngreen", 0x7cfc00), ("lemonchiffon", 0xfffacd), ("lightblue", 0xadd8e6), ("lightcoral", 0xf08080), ("lightcyan", 0xe0ffff),
    ("lightgoldenrodyellow", 0xfafad2), ("lightgray", 0xd3d3d3), ("lightgreen", 0x90ee90), ("lightgrey", 0xd3d3d3), ("lightpink", 0xffb6c1),
    ("lightsalmon", 0xffa07a), ("lightseagreen", 0x20b2aa), ("lightskyblue", 0x87cefa), ("lightslategray", 0x778899), ("lightslategrey", 0x778899),
    ("lightsteelblue", 0xb0c4de), ("lightyellow", 0xffffe0), ("lime", 0x00ff00), ("limegreen", 0x32cd32), ("linen", 0xfaf0e6),
    ("magenta", 0xff00ff), ("maroon", 0x800000), ("mediumaquamarine", 0x66cdaa), ("mediumblue", 0x0000cd), ("mediumorchid", 0xba55d3),
    ("mediumpurple", 0x9370db), ("mediumseagreen", 0x3cb371), ("mediumslateblue", 0x7b68ee), ("mediumspringgreen", 0x00fa9a), ("mediumturquoise", 0x48d1cc),
    ("mediumvioletred", 0xc71585), ("midnightblue", 0x191970), ("mintcream", 0xf5fffa), ("mistyrose", 0xffe4e1), ("moccasin", 0xffe4b5),
    ("navajowhite", 0xffdead), ("navy", 0x000080), ("oldlace", 0xfdf5e6), ("olive", 0x808000), ("olivedrab", 0x6b8e23),
    ("orange", 0xffa500), ("orangered", 0xff4500), ("orchid", 0xda70d6), ("palegoldenrod", 0xeee8aa), ("palegreen", 0x98fb98),
    ("paleturquoise", 0xafeeee), ("palevioletred", 0xdb7093), ("papayawhip", 0xffefd5), ("peachpuff", 0xffdab9), ("peru", 0xcd853f),
    ("pink", 0xffc0cb), ("plum", 0xdda0dd), ("powderblue", 0xb0e0e6), ("purple", 0x800080), ("rebeccapurple", 0x663399),
    ("red", 0xff0000), ("rosybrown", 0xbc8f8f), ("royalblue", 0x4169e1), ("saddlebrown", 0x8b4513), ("salmon", 0xfa8072),
    ("sandybrown", 0xf4a460), ("seagreen", 0x2e8b57), ("seashell", 0xfff5ee), ("sienna", 0xa0522d), ("silver", 0xc0c0c0),
    ("skyblue", 0x87ceeb), ("slateblue", 0x6a5acd), ("slategray", 0x708090), ("slategrey", 0x708090), ("snow", 0xfffafa),
    ("springgreen", 0x00ff7f), ("steelblue", 0x4682b4), ("tan", 0xd2b48c), ("teal", 0x008080), ("thistle", 0xd8bfd8),
    ("tomato", 0xff6347), ("turquoise", 0x40e0d0), ("violet", 0xee82ee), ("wheat", 0xf5deb3), ("white", 0xffffff),
    ("whitesmoke", 0xf5f5f5), ("yellow", 0xffff00), ("yellowgreen", 0x9acd32),
];

pub type Rgba = [f64; 4];

pub fn named(name: &str) -> Option<Rgba> {
    let l = name.to_ascii_lowercase();
    if l == "transparent" {
        return Some([0.0, 0.0, 0.0, 0.0]);
    }
    NAMED.iter().find(|(n, _)| *n == l).map(|(_, v)| [((v >> 16) & 255) as f64, ((v >> 8) & 255) as f64, (v & 255) as f64, 1.0])
}

/// `fff`, `ffff`, `ffffff`, `ffffffff` (without the `#`)
pub fn hex(h: &str) -> Option<Rgba> {
    if !h.bytes().all(|b| b.is_ascii_hexdigit()) {
        return None;
    }
    let d: Vec<u32> = h.chars().map(|c| c.to_digit(16).unwrap()).collect();
    match d.len() {
        3 | 4 => {
            let a = if d.len() == 4 { (d[3] * 17) as f64 / 255.0 } else { 1.0 };
            Some([(d[0] * 17) as f64, (d[1] * 17) as f64, (d[2] * 17) as f64, a])
        }
        6 | 8 => {
            let a = if d.len() == 8 { (d[6] * 16 + d[7]) as f64 / 255.0 } else { 1.0 };
            Some([(d[0] * 16 + d[1]) as f64, (d[2] * 16 + d[3]) as f64, (d[4] * 16 + d[5]) as f64, a])
        }
        _ => None,
    }
}

/// CSS Color 4 hsl -> rgb; h in degrees, s and l in 0..=1; result channels 0..=255
pub fn hsl_to_rgb(h: f64, s: f64, l: f64) -> [f64; 3] {
    let h = h.rem_euclid(360.0);
    let f = |n: f64| {
        let k = (n + h / 30.0) % 12.0;
        let a = s * l.min(1.0 - l);
        l - a * (k - 3.0).min(9.0 - k).min(1.0).max(-1.0)
    };
    [f(0.0) * 255.0, f(8.0) * 255.0, f(4.0) * 255.0]
}

/// CSS Color 4 hwb -> rgb; w and b in 0..=1
pub fn hwb_to_rgb(h: f64, w: f64, b: f64) -> [f64; 3] {
    if w + b >= 1.0 {
        let g = w / (w + b) * 255.0;
        return [g, g, g];
    }
    let rgb = hsl_to_rgb(h, 1.0, 0.5);
    let f = |c: f64| (c / 255.0 * (1.0 - w - b) + w) * 255.0;
    [f(rgb[0]), f(rgb[1]), f(rgb[2])]
}

/// rgb (0..=255) -> (hue degrees, saturation 0..=1, lightness 0..=1)
pub fn rgb_to_hsl(r: f64, g: f64, b: f64) -> [f64; 3] {
    let (r, g, b) = (r / 255.0, g / 255.0, b / 255.0);
    let max = r.max(g).max(b);
    let min = r.min(g).min(b);
    let l = (max + min) / 2.0;
    let d = max - min;
    if d == 0.0 {
        return [0.0, 0.0, l];
    }
    let s = if l == 0.0 || l == 1.0 { 0.0 } else { (max - l) / l.min(1.0 - l) };
    let h = if max == r { (g - b) / d + if g < b { 6.0 } else { 0.0 } } else if max == g { (b - r) / d + 2.0 } else { (r - g) / d + 4.0 };
    [h * 60.0, s, l]
}

/// Decode the text of a CSS colour value: a name, `transparent`, `#rgb`, `#rgba`, `#rrggbb`, `#rrggbbaa`,
/// `rgb()`/`rgba()` (comma or space syntax, numbers or percentages) and `hsl()`/`hsla()`.
/// Arguments are clamped as CSS prescribes.  None when the text is not one of these.
pub fn parse_text(text: &str) -> Option<Rgba> {
    let t = text.trim();
    if let Some(h) = t.strip_prefix('#') {
        return hex(h);
    }
    if t.bytes().all(|b| b.is_ascii_alphabetic()) {
        return named(t);
    }
    let open = t.find('(')?;
    if !t.ends_with(')') {
        return None;
    }
    let name = t[..open].to_ascii_lowercase();
    let inner = &t[open + 1..t.len() - 1];
    // split at commas, or at spaces and `/`
    let args: Vec<String> = if inner.contains(',') {
        inner.split(',').map(|s| s.trim().to_string()).collect()
    } else {
        inner.replace('/', " ").split_whitespace().map(|s| s.to_string()).collect()
    };
    if args.len() != 3 && args.len() != 4 {
        return None;
    }
    // (value, unit)
    let num = |s: &str| -> Option<(f64, String)> {
        let end = s.char_indices().find(|(i, c)| !(c.is_ascii_digit() || *c == '.' || ((*c == '-' || *c == '+') && (*i == 0 || s[..*i].ends_with('e'))) || (*c == 'e' && s[i + 1..].starts_with(|d: char| d.is_ascii_digit() || d == '-' || d == '+')))).map(|(i, _)| i).unwrap_or(s.len());
        if end == 0 {
            return None;
        }
        let v: f64 = s[..end].parse().ok()?;
        Some((v, s[end..].to_ascii_lowercase()))
    };
    let alpha = match args.get(3) {
        None => 1.0,
        Some(a) => match num(a)? {
            (v, u) if u.is_empty() => v.clamp(0.0, 1.0),
            (v, u) if u == "%" => (v / 100.0).clamp(0.0, 1.0),
            _ => return None,
        },
    };
    match name.as_str() {
        "rgb" | "rgba" => {
            let mut out = [0.0, 0.0, 0.0, alpha];
            for i in 0..3 {
                out[i] = match num(&args[i])? {
                    (v, u) if u.is_empty() => v.clamp(0.0, 255.0),
                    (v, u) if u == "%" => (v * 2.55).clamp(0.0, 255.0),
                    _ => return None,
                };
            }
            Some(out)
        }
        "hsl" | "hsla" => {
            let h = match num(&args[0])? {
                (v, u) if u.is_empty() || u == "deg" => v,
                (v, u) if u == "turn" => v * 360.0,
                (v, u) if u == "grad" => v * 0.9,
                (v, u) if u == "rad" => v.to_degrees(),
                _ => return None,
            };
            let pct = |s: &str| match num(s)? {
                (v, u) if u == "%" => Some((v / 100.0).clamp(0.0, 1.0)),
                _ => None,
            };
            let rgb = hsl_to_rgb(h, pct(&args[1])?, pct(&args[2])?);
            Some([rgb[0], rgb[1], rgb[2], alpha])
        }
        _ => None,
    }
}
