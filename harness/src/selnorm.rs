//! Text-level selector canonicaliser (independent of rsass): splits a selector list into complex selectors,
//! compounds and simple selectors and prints them in one canonical form, so that two spellings of the same
//! selector compare equal: whitespace around combinators, order of simple selectors inside a compound
//! (type first, pseudo-elements last), recursively inside selector pseudo-class arguments.

/// length (in chars) of the escape starting at cs[i] == '\\': hex escapes take up to 6 digits and one following space
fn escape_len(cs: &[char], i: usize) -> usize {
    let mut n = 1;
    let mut h = 0;
    while h < 6 && cs.get(i + n).is_some_and(|c| c.is_ascii_hexdigit()) {
        n += 1;
        h += 1;
    }
    if h == 0 {
        return if i + 1 < cs.len() { 2 } else { 1 };
    }
    if cs.get(i + n).is_some_and(|c| *c == ' ' || *c == '\t' || *c == '\n') {
        n += 1;
    }
    n
}

fn split_top(s: &str, sep: char) -> Vec<String> {
    let mut out = vec![];
    let mut depth = 0i32;
    let mut cur = String::new();
    let mut quote: Option<char> = None;
    let mut prev_bs = false;
    for c in s.chars() {
        if let Some(q) = quote {
            cur.push(c);
            if c == q && !prev_bs {
                quote = None;
            }
            prev_bs = c == '\\' && !prev_bs;
            continue;
        }
        match c {
            '"' | '\'' => {
                quote = Some(c);
                cur.push(c);
            }
            '(' | '[' => {
                depth += 1;
                cur.push(c);
            }
            ')' | ']' => {
                depth -= 1;
                cur.push(c);
            }
            c if c == sep && depth == 0 && !prev_bs => {
                out.push(cur.trim().to_string());
                cur = String::new();
            }
            c => cur.push(c),
        }
        prev_bs = c == '\\' && !prev_bs;
    }
    out.push(cur.trim().to_string());
    out
}

const SELECTOR_PSEUDOS: &[&str] = &["not", "is", "where", "matches", "any", "has", "slotted", "host", "host-context", "current", "-moz-any", "-webkit-any"];

/// simple selectors of one compound, in source order
pub fn simples(compound: &str) -> Vec<String> {
    let cs: Vec<char> = compound.chars().collect();
    let mut out: Vec<String> = vec![];
    let mut i = 0;
    let mut cur = String::new();
    let flush = |cur: &mut String, out: &mut Vec<String>| {
        if !cur.is_empty() {
            out.push(std::mem::take(cur));
        }
    };
    while i < cs.len() {
        let c = cs[i];
        match c {
            '\\' => {
                let n = escape_len(&cs, i);
                cur.extend(&cs[i..i + n]);
                i += n - 1;
            }
            '.' | '#' | '%' => {
                flush(&mut cur, &mut out);
                cur.push(c);
            }
            '&' => {
                flush(&mut cur, &mut out);
                cur.push(c);
            }
            '[' => {
                flush(&mut cur, &mut out);
                let mut depth = 0;
                let mut quote: Option<char> = None;
                while i < cs.len() {
                    let d = cs[i];
                    cur.push(d);
                    if let Some(q) = quote {
                        if d == q {
                            quote = None;
                        }
                    } else if d == '"' || d == '\'' {
                        quote = Some(d);
                    } else if d == '[' {
                        depth += 1;
                    } else if d == ']' {
                        depth -= 1;
                        if depth == 0 {
                            break;
                        }
                    }
                    i += 1;
                }
                flush(&mut cur, &mut out);
            }
            ':' => {
                flush(&mut cur, &mut out);
                cur.push(':');
                if cs.get(i + 1) == Some(&':') {
                    cur.push(':');
                    i += 1;
                }
                i += 1;
                // name
                while i < cs.len() && (cs[i].is_alphanumeric() || cs[i] == '-' || cs[i] == '_' || cs[i] == '\\') {
                    cur.push(cs[i]);
                    i += 1;
                }
                if cs.get(i) == Some(&'(') {
                    let mut depth = 0;
                    let mut arg = String::new();
                    while i < cs.len() {
                        let d = cs[i];
                        if d == '(' {
                            depth += 1;
                            if depth == 1 {
                                i += 1;
                                continue;
                            }
                        } else if d == ')' {
                            depth -= 1;
                            if depth == 0 {
                                break;
                            }
                        }
                        arg.push(d);
                        i += 1;
                    }
                    let name = cur.trim_start_matches(':').to_string();
                    if SELECTOR_PSEUDOS.contains(&name.as_str()) {
                        // the order of the members of a selector-list argument carries no meaning
                        let mut members: Vec<String> = split_top(&arg, ',').iter().filter(|s| !s.is_empty()).map(|c| canon_complex(c)).collect();
                        members.sort_by_key(|m| format!("{:?}", crate::cssread::tokenize(m)).replace("Str(", "Ident("));
                        cur.push_str(&format!("({})", members.join(", ")));
                    } else {
                        cur.push_str(&format!("({})", arg.split_whitespace().collect::<Vec<_>>().join(" ")));
                    }
                } else {
                    i -= 1;
                }
                flush(&mut cur, &mut out);
            }
            c => cur.push(c),
        }
        i += 1;
    }
    flush(&mut cur, &mut out);
    out
}

fn rank(s: &str) -> u8 {
    if s.starts_with("::") || matches!(s, ":before" | ":after" | ":first-line" | ":first-letter") {
        6
    } else if s.starts_with(':') {
        5
    } else if s.starts_with('[') {
        4
    } else if s.starts_with('.') {
        3
    } else if s.starts_with('#') {
        2
    } else if s.starts_with('%') {
        1
    } else {
        0
    }
}

pub fn canon_compound(c: &str) -> String {
    let mut v = simples(c);
    // `*.c` and `.c` are the same compound
    if v.len() > 1 && v[0] == "*" {
        v.remove(0);
    }
    // order by the decoded text, so that two spellings of one name sort alike
    let key = |x: &String| format!("{:?}", crate::cssread::tokenize(x)).replace("Str(", "Ident(");
    v.sort_by(|a, b| rank(a).cmp(&rank(b)).then_with(|| key(a).cmp(&key(b))));
    // `.k.k` and `.k` are the same compound
    v.dedup_by_key(|x| key(x));
    v.concat()
}

/// (compounds, combinators between/around them) of one complex selector
pub fn complex_parts(cx: &str) -> Vec<String> {
    // tokens: compounds and the combinators > + ~ (descendant = " ")
    let cs: Vec<char> = cx.trim().chars().collect();
    let mut out: Vec<String> = vec![];
    let mut cur = String::new();
    let mut depth = 0i32;
    let mut quote: Option<char> = None;
    let mut i = 0;
    let mut pending_space = false;
    while i < cs.len() {
        let c = cs[i];
        if let Some(q) = quote {
            cur.push(c);
            if c == q {
                quote = None;
            }
            i += 1;
            continue;
        }
        // a compound starts after whitespace: that whitespace was a descendant combinator
        if depth == 0 && !c.is_whitespace() && !matches!(c, '>' | '+' | '~') && pending_space && cur.is_empty() {
            if out.last().is_some_and(|l| !matches!(l.as_str(), ">" | "+" | "~")) {
                out.push(" ".into());
            }
            pending_space = false;
        }
        match c {
            '\\' => {
                let n = escape_len(&cs, i);
                cur.extend(&cs[i..i + n]);
                i += n - 1;
            }
            '"' | '\'' => {
                quote = Some(c);
                cur.push(c);
            }
            '(' | '[' => {
                depth += 1;
                cur.push(c);
            }
            ')' | ']' => {
                depth -= 1;
                cur.push(c);
            }
            '>' | '+' | '~' if depth == 0 => {
                if !cur.is_empty() {
                    out.push(canon_compound(&cur));
                    cur.clear();
                }
                out.push(c.to_string());
                pending_space = false;
            }
            c if c.is_whitespace() && depth == 0 => {
                if !cur.is_empty() {
                    out.push(canon_compound(&cur));
                    cur.clear();
                    pending_space = true;
                }
            }
            c => {
                if pending_space && cur.is_empty() && out.last().is_some_and(|l| !matches!(l.as_str(), ">" | "+" | "~")) {
                    out.push(" ".into());
                }
                pending_space = false;
                cur.push(c);
            }
        }
        i += 1;
    }
    if !cur.is_empty() {
        out.push(canon_compound(&cur));
    }
    out
}

pub fn canon_complex(cx: &str) -> String {
    let parts = complex_parts(cx);
    let mut s = String::new();
    for p in parts {
        match p.as_str() {
            " " => s.push(' '),
            ">" | "+" | "~" => {
                if !s.is_empty() && !s.ends_with(' ') {
                    s.push(' ');
                }
                s.push_str(&p);
                s.push(' ');
            }
            c => s.push_str(c),
        }
    }
    s.trim().to_string()
}

/// canonical form of a selector list
pub fn canon(list: &str) -> String {
    split_top(list, ',').iter().filter(|s| !s.is_empty()).map(|c| canon_complex(c)).collect::<Vec<_>>().join(", ")
}

pub fn split_list(list: &str) -> Vec<String> {
    split_top(list, ',').into_iter().filter(|s| !s.is_empty()).collect()
}
