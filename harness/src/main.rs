mod engine;
mod props;
mod rs;

use engine::Tier;

fn usage() -> ! {
    println!("usage: vcheck <Cxx> quick|thorough | vcheck <Cxx> --replay <file> | vcheck --worker <Cxx>");
    std::process::exit(2)
}

fn main() {
    let args: Vec<String> = std::env::args().skip(1).collect();
    rs::install_panic_hook();
    rs::silence_stderr();
    let code = match args.as_slice() {
        [w, id] if w == "--worker" => props::dispatch(id, props::Mode::Worker),
        [id, r, path] if r == "--replay" => props::dispatch(id, props::Mode::Replay(path.clone())),
        [id, t] if t == "quick" => props::dispatch(id, props::Mode::Check(Tier::Quick)),
        [id, t] if t == "thorough" => props::dispatch(id, props::Mode::Check(Tier::Thorough)),
        _ => usage(),
    };
    if !matches!(args.first().map(|s| s.as_str()), Some("--worker")) {
        let _ = std::fs::remove_dir_all(engine::worker::scratch_dir());
    }
    std::process::exit(code)
}
