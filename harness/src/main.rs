mod corpus;
mod csscolor;
mod cssread;
mod engine;
mod gen;
mod props;
mod rs;
mod selnorm;

use engine::Tier;

fn usage() -> ! {
    println!("usage: vcheck <Cxx> quick|thorough | vcheck <Cxx> --replay <file> | vcheck --worker <Cxx>");
    std::process::exit(2)
}

fn main() {
    let args: Vec<String> = std::env::args().skip(1).collect();
    rs::install_panic_hook();
    if !matches!(args.first().map(|s| s.as_str()), Some("--worker") | Some("--history")) {
        rs::silence_stderr();
    }
    let code = match args.as_slice() {
        [e, expr] if e == "--eval" => {
            match rs::inspect(expr) {
                Ok(v) => println!("{v}"),
                Err(r) => println!("{}", r.brief()),
            }
            0
        }
        [e, file] if e == "--compile" || e == "--compressed" || e == "--css" => {
            let src = std::fs::read(file).unwrap_or_default();
            let o = if e == "--compressed" { rs::Opts::compressed() } else if e == "--css" { rs::Opts { css: true, ..Default::default() } } else { rs::Opts::default() };
            match rs::compile(&src, &o) {
                rs::Res::Ok(b) => print!("{}", String::from_utf8_lossy(&b)),
                r => println!("{}", r.brief()),
            }
            0
        }
        [e, n] if e == "--sample-grammar" => {
            use proptest::strategy::{Strategy, ValueTree};
            let mut runner = proptest::test_runner::TestRunner::deterministic();
            let st = gen::prog::sheet(gen::prog::Cfg { wild: false, safe: true, ..Default::default() });
            for _ in 0..n.parse::<usize>().unwrap_or(10) {
                let src = st.new_tree(&mut runner).unwrap().current();
                let r = rs::compile(src.as_bytes(), &rs::Opts::default());
                match &r {
                    rs::Res::Err { kind, text } => println!("=== {kind} {}", text.lines().take(6).collect::<Vec<_>>().join(" | ")),
                    rs::Res::Panic(m) => println!("=== PANIC {m}"),
                    _ => {}
                }
            }
            0
        }
        [d, dir] if d == "--dump-fuzz-seeds" => {
            // seeds and dictionary for fuzz/fuzz_targets/compile.rs: byte 0 = 40 (scss, expanded, precision 10)
            let _ = std::fs::create_dir_all(format!("{dir}/fuzz-seeds"));
            for (i, src) in corpus::corpus().iter().enumerate() {
                if src.len() < 20_000 {
                    let mut d = vec![if i % 7 == 0 { 42u8 } else { 40u8 }];
                    d.extend_from_slice(src);
                    let _ = std::fs::write(format!("{dir}/fuzz-seeds/s{i:05}"), d);
                }
            }
            let mut dict = String::new();
            for (i, t) in props::c01::dict().iter().enumerate() {
                let esc: String = t.bytes().map(|b| if b.is_ascii_alphanumeric() || b" @#{}()[].!$&%:;,*+-/=<>~|_".contains(&b) { (b as char).to_string() } else { format!("\\x{b:02x}") }).collect();
                dict.push_str(&format!("t{i}=\"{esc}\"\n"));
            }
            let _ = std::fs::write(format!("{dir}/fuzz.dict"), dict);
            0
        }
        [h] if h == "--history" => props::c05::main_history(),
        [w, id] if w == "--worker" => props::dispatch(id, props::Mode::Worker),
        [id, r, path] if r == "--replay" => props::dispatch(id, props::Mode::Replay(path.clone())),
        [id, t] if t == "quick" => props::dispatch(id, props::Mode::Check(Tier::Quick)),
        [id, t] if t == "thorough" => props::dispatch(id, props::Mode::Check(Tier::Thorough)),
        _ => usage(),
    };
    if !matches!(args.first().map(|s| s.as_str()), Some("--worker") | Some("--history")) {
        let _ = std::fs::remove_dir_all(engine::worker::scratch_dir());
    }
    std::process::exit(code)
}
