//! Thin layer over the rsass public API: compile with options, in-memory
//! loaders, panic capture, and the one-expression "probe".

use crate::engine::Verdict;
use rsass::input::{Context, LoadError, Loader, SourceFile, SourceName};
use rsass::output::{Format, Style};
use serde::{Deserialize, Serialize};
use std::cell::RefCell;
use std::collections::BTreeMap;
use std::panic::{catch_unwind, AssertUnwindSafe};

thread_local! {
    static LAST_PANIC: RefCell<Option<String>> = const { RefCell::new(None) };
}

pub fn install_panic_hook() {
    std::panic::set_hook(Box::new(|info| {
        let msg = if let Some(s) = info.payload().downcast_ref::<&str>() {
            s.to_string()
        } else if let Some(s) = info.payload().downcast_ref::<String>() {
            s.clone()
        } else {
            "<non-string panic payload>".to_string()
        };
        let mut loc = info.location().map(|l| format!("{}:{}", l.file(), l.line())).unwrap_or_default();
        if !loc.contains("/rsass/src/") {
            // panic raised inside std/core: name the innermost rsass frame
            let bt = std::backtrace::Backtrace::force_capture().to_string();
            let mut lines = bt.lines();
            while let Some(l) = lines.next() {
                let func = l.trim().splitn(2, ": ").nth(1).unwrap_or("");
                if func.starts_with("rsass::") || func.starts_with("<rsass::") {
                    let at = lines.next().unwrap_or("").trim().trim_start_matches("at ").to_string();
                    loc = format!("{loc} in {func} ({at})");
                    break;
                }
            }
        }
        LAST_PANIC.with(|p| *p.borrow_mut() = Some(format!("{msg} @ {loc}")));
    }));
}

fn take_panic() -> String {
    LAST_PANIC.with(|p| p.borrow_mut().take()).unwrap_or_else(|| "<unknown panic>".into())
}

/// silence fd 2 (rsass prints @warn/@debug and deprecation notes with eprintln)
pub fn silence_stderr() {
    unsafe {
        let fd = libc::open(b"/dev/null\0".as_ptr() as *const libc::c_char, libc::O_WRONLY);
        if fd >= 0 {
            libc::dup2(fd, 2);
            libc::close(fd);
        }
    }
}

/// a panic in the *harness* (outside `compile*`) is a harness bug, never a verdict on rsass
pub fn guard(f: impl FnOnce() -> Verdict) -> Verdict {
    match catch_unwind(AssertUnwindSafe(f)) {
        Ok(v) => v,
        Err(_) => Verdict::discard(format!("HARNESS PANIC: {}", take_panic())),
    }
}

#[derive(Clone, Copy, Debug, PartialEq, Eq, Serialize, Deserialize, Hash)]
pub enum St {
    Expanded,
    Compressed,
    Introspection,
}
impl St {
    pub fn style(self) -> Style {
        match self {
            St::Expanded => Style::Expanded,
            St::Compressed => Style::Compressed,
            St::Introspection => Style::Introspection,
        }
    }
}

#[derive(Clone, Copy, Debug, PartialEq, Eq, Serialize, Deserialize, Hash)]
pub struct Opts {
    pub css: bool,
    pub style: St,
    pub precision: usize,
}
impl Default for Opts {
    fn default() -> Self {
        Opts { css: false, style: St::Expanded, precision: 10 }
    }
}
impl Opts {
    pub fn format(&self) -> Format {
        Format { style: self.style.style(), precision: self.precision }
    }
    pub fn compressed() -> Self {
        Opts { style: St::Compressed, ..Default::default() }
    }
    pub fn prec(p: usize) -> Self {
        Opts { precision: p, ..Default::default() }
    }
}

#[derive(Clone, Debug, PartialEq, Eq)]
pub enum Res {
    Ok(Vec<u8>),
    Err { kind: &'static str, text: String },
    Panic(String),
}
impl Res {
    pub fn ok_str(&self) -> Option<String> {
        match self {
            Res::Ok(b) => Some(String::from_utf8_lossy(b).to_string()),
            _ => None,
        }
    }
    pub fn is_ok(&self) -> bool {
        matches!(self, Res::Ok(_))
    }
    pub fn is_err(&self) -> bool {
        matches!(self, Res::Err { .. })
    }
    pub fn panic_msg(&self) -> Option<&str> {
        match self {
            Res::Panic(m) => Some(m),
            _ => None,
        }
    }
    pub fn err_text(&self) -> Option<&str> {
        match self {
            Res::Err { text, .. } => Some(text),
            _ => None,
        }
    }
    pub fn err_kind(&self) -> Option<&'static str> {
        match self {
            Res::Err { kind, .. } => Some(kind),
            _ => None,
        }
    }
    pub fn brief(&self) -> String {
        match self {
            Res::Ok(b) => format!("Ok({:?})", String::from_utf8_lossy(b)),
            Res::Err { kind, text } => format!("Err[{kind}]({:?})", text.lines().next().unwrap_or("")),
            Res::Panic(m) => format!("PANIC({m})"),
        }
    }
}

pub fn err_kind(e: &rsass::Error) -> &'static str {
    match e {
        rsass::Error::Input(_) => "Input",
        rsass::Error::IoError(_) => "IoError",
        rsass::Error::BadCall(..) => "BadCall",
        rsass::Error::ImportLoop(..) => "ImportLoop",
        rsass::Error::ParseError(_) => "ParseError",
        rsass::Error::Invalid(..) => "Invalid",
        rsass::Error::S(_) => "S",
    }
}

/// run an rsass entry point; panics (also while rendering the error) are captured
pub fn run(f: impl FnOnce() -> Result<Vec<u8>, rsass::Error>) -> Res {
    match catch_unwind(AssertUnwindSafe(|| match f() {
        Ok(b) => Res::Ok(b),
        Err(e) => {
            let kind = err_kind(&e);
            let text = e.to_string();
            let _ = format!("{e:?}");
            Res::Err { kind, text }
        }
    })) {
        Ok(r) => r,
        Err(_) => Res::Panic(take_panic()),
    }
}

#[derive(Clone, Debug, Default)]
pub struct MemLoader {
    pub files: BTreeMap<String, Vec<u8>>,
    /// resolve `.` and `..` segments like a file system does
    pub normalise: bool,
}

pub fn normalise_path(url: &str) -> Option<String> {
    let mut out: Vec<&str> = vec![];
    for seg in url.split('/') {
        match seg {
            "" | "." => {}
            ".." => {
                out.pop()?;
            }
            s => out.push(s),
        }
    }
    Some(out.join("/"))
}

impl Loader for MemLoader {
    type File = std::io::Cursor<Vec<u8>>;
    fn find_file(&self, url: &str) -> Result<Option<Self::File>, LoadError> {
        let key = if self.normalise {
            match normalise_path(url) {
                Some(k) => k,
                None => return Ok(None),
            }
        } else {
            url.to_string()
        };
        Ok(self.files.get(&key).map(|d| std::io::Cursor::new(d.clone())))
    }
}

pub fn compile(src: &[u8], o: &Opts) -> Res {
    compile_with(src, o, MemLoader::default())
}

pub fn compile_with<L: Loader>(src: &[u8], o: &Opts, loader: L) -> Res {
    let fmt = o.format();
    let css = o.css;
    run(move || {
        let name = SourceName::root(if css { "input.css" } else { "input.scss" });
        let file = if css { SourceFile::css_bytes(src, name) } else { SourceFile::scss_bytes(src, name) };
        Context::for_loader(loader).with_format(fmt).transform(file)
    })
}

/// compile `root` out of an in-memory file set (file-system like `.`/`..` resolution)
pub fn compile_files(files: &[(String, String)], root: &str, o: &Opts) -> Res {
    let mut l = MemLoader { normalise: true, ..Default::default() };
    let mut src = Vec::new();
    for (n, d) in files {
        if n == root {
            src = d.clone().into_bytes();
        }
        l.files.insert(n.clone(), d.clone().into_bytes());
    }
    let fmt = o.format();
    let root = root.to_string();
    run(move || {
        let name = SourceName::root(root);
        Context::for_loader(l).with_format(fmt).transform(SourceFile::scss_bytes(src, name))
    })
}

pub const USES: &str = "@use \"sass:math\";@use \"sass:string\";@use \"sass:list\";@use \"sass:map\";@use \"sass:color\";@use \"sass:selector\";@use \"sass:meta\";\n";

/// evaluate expressions, each in its own declaration of one rule; the text of
/// each value as printed in expanded style (None when the declaration was omitted)
pub fn probes_with(prelude: &str, exprs: &[String], precision: usize) -> Result<Vec<Option<String>>, Res> {
    let mut src = String::from(USES);
    src.push_str(prelude);
    src.push_str("\nzzq{");
    for (i, e) in exprs.iter().enumerate() {
        src.push_str(&format!("p{i}:{e};"));
    }
    src.push_str("zend:0}\n");
    let r = compile(src.as_bytes(), &Opts::prec(precision));
    let Some(out) = r.ok_str() else { return Err(r) };
    // frame: [@charset..]\n ... zzq {\n  p0: V;\n  p1: V;\n  zend: 0;\n}\n
    let Some(start) = out.rfind("zzq {\n") else { return Err(Res::Err { kind: "frame", text: format!("no probe frame in {out:?}") }) };
    let body = &out[start + 6..];
    let mut res = vec![];
    let mut rest = body;
    for i in 0..exprs.len() {
        let key = format!("  p{i}: ");
        if let Some(r2) = rest.strip_prefix(key.as_str()) {
            // value ends at ";\n  p<next>: " or ";\n  zend: 0;"
            let mut end = None;
            for j in (i + 1)..=exprs.len() {
                let nk = if j == exprs.len() { ";\n  zend: 0;\n}".to_string() } else { format!(";\n  p{j}: ") };
                if let Some(p) = r2.find(nk.as_str()) {
                    end = Some(p);
                    break;
                }
            }
            let Some(p) = end else { return Err(Res::Err { kind: "frame", text: format!("cannot delimit probe {i} in {out:?}") }) };
            res.push(Some(r2[..p].to_string()));
            rest = &r2[p + 2..];
        } else {
            res.push(None);
        }
    }
    Ok(res)
}

pub fn probes(exprs: &[String]) -> Result<Vec<Option<String>>, Res> {
    probes_with("", exprs, 10)
}

/// one expression through `inspect()`; Err(text) when the compilation fails
pub fn inspect(expr: &str) -> Result<String, Res> {
    inspect_with("", expr)
}

pub fn inspect_with(prelude: &str, expr: &str) -> Result<String, Res> {
    let v = probes_with(prelude, &[format!("inspect({expr})")], 10)?;
    match v.into_iter().next().flatten() {
        Some(s) => Ok(s),
        None => Err(Res::Err { kind: "frame", text: "inspect() printed nothing".into() }),
    }
}
