//! Check engine: runs a property (`Prop`) over generated cases, sharded over
//! threads, with proptest shrinking, optional worker-subprocess isolation,
//! known-finding regions, replay files and evidence output.

pub mod worker;

use proptest::strategy::{BoxedStrategy, Strategy};
use proptest::test_runner::{Config, RngSeed, TestCaseError, TestError, TestRunner};
use serde::{de::DeserializeOwned, Deserialize, Serialize};
use serde_json::{json, Value};
use std::collections::{BTreeMap, HashSet};
use std::hash::{Hash, Hasher};
use std::sync::atomic::{AtomicBool, Ordering};
use std::sync::Mutex;
use std::time::Instant;

/// root of the verification tree: the directory of the `check` script that started us (default /verif)
pub fn verif_root() -> String {
    std::env::var("VERIF_ROOT").ok().filter(|s| !s.is_empty()).unwrap_or_else(|| "/verif".to_string())
}

#[derive(Clone, Copy, Debug, PartialEq, Eq)]
pub enum Tier {
    Quick,
    Thorough,
}
impl Tier {
    pub fn pick<T>(self, quick: T, thorough: T) -> T {
        match self {
            Tier::Quick => quick,
            Tier::Thorough => thorough,
        }
    }
    pub fn name(self) -> &'static str {
        self.pick("quick", "thorough")
    }
}

#[derive(Clone, Debug, Serialize, Deserialize)]
pub enum Outcome {
    Pass,
    /// the property does not hold on this case.  `region`: the known-finding
    /// region (finding id) the case falls in *and* whose deviant behaviour the
    /// observation matches, if any.
    Fail { msg: String, region: Option<String> },
    /// case is outside the domain / could not be judged (time-out, resource)
    Discard(String),
}

#[derive(Clone, Debug, Serialize, Deserialize)]
pub struct Verdict {
    pub outcome: Outcome,
    pub nontrivial: bool,
    pub classes: Vec<String>,
}
impl Verdict {
    pub fn pass(nontrivial: bool) -> Self {
        Verdict { outcome: Outcome::Pass, nontrivial, classes: vec![] }
    }
    pub fn fail(msg: impl Into<String>) -> Self {
        Verdict { outcome: Outcome::Fail { msg: msg.into(), region: None }, nontrivial: true, classes: vec![] }
    }
    pub fn known(region: &str, msg: impl Into<String>) -> Self {
        Verdict {
            outcome: Outcome::Fail { msg: msg.into(), region: Some(region.into()) },
            nontrivial: true,
            classes: vec![],
        }
    }
    pub fn discard(why: impl Into<String>) -> Self {
        Verdict { outcome: Outcome::Discard(why.into()), nontrivial: false, classes: vec![] }
    }
    pub fn class(mut self, c: impl Into<String>) -> Self {
        self.classes.push(c.into());
        self
    }
    pub fn class_if(self, cond: bool, c: &str) -> Self {
        if cond { self.class(c) } else { self }
    }
    pub fn is_fail(&self) -> bool {
        matches!(self.outcome, Outcome::Fail { .. })
    }
}

pub enum Phase<C> {
    /// proptest-driven random generation with shrinking
    Random { name: &'static str, strategy: BoxedStrategy<C>, cases: u64 },
    /// deterministic enumeration (split over the shards by index)
    Enumerate { name: &'static str, iter: Box<dyn Iterator<Item = C>>, exhaustive: bool },
}
impl<C: std::fmt::Debug + 'static> Phase<C> {
    pub fn random(name: &'static str, s: impl Strategy<Value = C> + 'static, cases: u64) -> Self {
        Phase::Random { name, strategy: s.boxed(), cases }
    }
    pub fn list(name: &'static str, v: Vec<C>) -> Self {
        Phase::Enumerate { name, iter: Box::new(v.into_iter()), exhaustive: false }
    }
    pub fn enumerate(name: &'static str, it: impl Iterator<Item = C> + 'static) -> Self {
        Phase::Enumerate { name, iter: Box::new(it), exhaustive: true }
    }
}

pub trait Prop: Sync + Send + Sized + 'static {
    type Case: Clone + std::fmt::Debug + Serialize + DeserializeOwned + Send + 'static;
    const ID: &'static str;
    /// run every case in a worker subprocess (stack overflows, aborts and
    /// hangs are then attributed to the case instead of killing the check)
    const ISOLATED: bool = false;
    const TIMEOUT_MS: u64 = 10_000;
    /// evidence level
    const LEVEL: &'static str = "exploration";
    fn new() -> Self;
    /// how cases are generated and what makes one non-trivial
    fn rule(&self) -> String;
    fn assumptions(&self) -> Vec<String> {
        vec![]
    }
    /// the plan of work; called once per shard thread (strategies are not Send)
    fn phases(&self, tier: Tier) -> Vec<Phase<Self::Case>>;
    fn check(&self, case: &Self::Case) -> Verdict;
    /// how a case is shown in evidence samples
    fn render(&self, case: &Self::Case) -> Value {
        serde_json::to_value(case).unwrap_or(Value::Null)
    }
    /// verdict for a case whose worker process died (`why` = exit status and stderr tail)
    fn on_worker_death(&self, _case: &Self::Case, why: &str) -> Verdict {
        Verdict::fail(why.to_string())
    }
    /// hook called once in the parent before anything runs (e.g. scratch dirs)
    fn prepare(&self, _tier: Tier) {}
}

#[derive(Deserialize, Debug, Clone)]
pub struct Finding {
    pub property: String,
    pub id: String,
    pub status: String,
    #[serde(default)]
    pub commit: Option<String>,
    pub what: String,
    #[serde(default)]
    pub witness: Value,
}

pub fn load_findings(prop: &str) -> Vec<Finding> {
    let path = format!("{}/known_findings.json", verif_root());
    let Ok(txt) = std::fs::read_to_string(&path) else { return vec![] };
    let all: Vec<Finding> = match serde_json::from_str(&txt) {
        Ok(v) => v,
        Err(e) => {
            println!("cannot parse {path}: {e}");
            std::process::exit(2);
        }
    };
    all.into_iter().filter(|f| f.property == prop).collect()
}

#[derive(Default)]
struct Stats {
    evaluations: u64,
    nontrivial: u64,
    distinct: HashSet<u64>,
    classes: BTreeMap<String, u64>,
    excluded: BTreeMap<String, u64>,
    discards: BTreeMap<String, u64>,
    samples: Vec<Value>,
    sample_countdown: u64,
    phases: BTreeMap<String, u64>,
}
impl Stats {
    fn merge(&mut self, o: Stats) {
        self.evaluations += o.evaluations;
        self.nontrivial += o.nontrivial;
        self.distinct.extend(o.distinct);
        for (k, v) in o.classes {
            *self.classes.entry(k).or_default() += v;
        }
        for (k, v) in o.excluded {
            *self.excluded.entry(k).or_default() += v;
        }
        for (k, v) in o.discards {
            *self.discards.entry(k).or_default() += v;
        }
        for (k, v) in o.phases {
            *self.phases.entry(k).or_default() += v;
        }
        self.samples.extend(o.samples);
    }
}

fn fingerprint<C: Serialize>(c: &C) -> u64 {
    let s = serde_json::to_string(c).unwrap_or_default();
    let mut h = std::collections::hash_map::DefaultHasher::new();
    s.hash(&mut h);
    h.finish()
}

pub struct Violation {
    pub case: Value,
    pub msg: String,
    pub phase: String,
}

struct Shared {
    stop: AtomicBool,
    /// the process grew past the memory budget: the remaining generated cases are skipped (and counted)
    mem_stop: AtomicBool,
    violation: Mutex<Option<Violation>>,
    enabled: HashSet<String>,
}

/// executes one case, in-process or through the shard's worker
struct Exec<'a, P: Prop> {
    prop: &'a P,
    worker: Option<worker::Worker>,
}
impl<'a, P: Prop> Exec<'a, P> {
    fn new(prop: &'a P) -> Self {
        Exec { prop, worker: None }
    }
    fn run(&mut self, case: &P::Case) -> Verdict {
        if P::ISOLATED {
            let line = serde_json::to_string(case).expect("case serialises");
            match worker::run_in_worker(&mut self.worker, P::ID, &line, P::TIMEOUT_MS) {
                Ok(v) => v,
                Err(why) => self.prop.on_worker_death(case, &why),
            }
        } else {
            crate::rs::guard(|| self.prop.check(case))
        }
    }
}

fn note<P: Prop>(prop: &P, st: &mut Stats, phase: &str, case: &P::Case, v: &Verdict) {
    st.evaluations += 1;
    *st.phases.entry(phase.to_string()).or_default() += 1;
    for c in &v.classes {
        *st.classes.entry(format!("{phase}/{c}")).or_default() += 1;
    }
    if let Outcome::Discard(why) = &v.outcome {
        *st.discards.entry(why.clone()).or_default() += 1;
        return;
    }
    if v.nontrivial {
        st.nontrivial += 1;
        if st.distinct.insert(fingerprint(case)) {
            if st.sample_countdown == 0 && st.samples.len() < 4 {
                st.samples.push(prop.render(case));
                st.sample_countdown = (st.distinct.len() as u64) * 3;
            } else if st.sample_countdown > 0 {
                st.sample_countdown -= 1;
            }
        }
    }
}

fn seed_for(seed: u64, phase: usize, shard: usize) -> u64 {
    let mut h = std::collections::hash_map::DefaultHasher::new();
    (seed, phase as u64, shard as u64, 0x5eed_u64).hash(&mut h);
    h.finish()
}

fn threads() -> usize {
    std::env::var("VERIF_THREADS").ok().and_then(|s| s.parse().ok()).unwrap_or(16).max(1)
}

pub fn seed_from_env() -> u64 {
    let s = std::env::var("VERIF_SEED").ok().and_then(|s| s.trim().parse::<i128>().ok()).unwrap_or(0);
    if s == 0 { 0x00C0_FFEE } else { s as u64 }
}

fn shard_main<P: Prop>(prop: &P, tier: Tier, seed: u64, shard: usize, nshards: usize, sh: &Shared) -> (Stats, Vec<bool>) {
    let mut st = Stats::default();
    let mut exec = Exec::new(prop);
    let mut exhaustive_flags = vec![];
    for (pi, phase) in prop.phases(tier).into_iter().enumerate() {
        if sh.stop.load(Ordering::Relaxed) {
            break;
        }
        match phase {
            Phase::Enumerate { name, iter, exhaustive } => {
                let mut completed = true;
                for (i, case) in iter.enumerate() {
                    if i % nshards != shard {
                        continue;
                    }
                    if sh.stop.load(Ordering::Relaxed) {
                        completed = false;
                        break;
                    }
                    let v = exec.run(&case);
                    note(prop, &mut st, name, &case, &v);
                    if let Outcome::Fail { msg, region } = &v.outcome {
                        match region {
                            Some(r) if sh.enabled.contains(r) => {
                                *st.excluded.entry(r.clone()).or_default() += 1;
                            }
                            _ => {
                                sh.stop.store(true, Ordering::Relaxed);
                                let mut g = sh.violation.lock().unwrap();
                                if g.is_none() {
                                    *g = Some(Violation { case: serde_json::to_value(&case).unwrap(), msg: msg.clone(), phase: name.into() });
                                }
                                completed = false;
                                break;
                            }
                        }
                    }
                }
                exhaustive_flags.push(exhaustive && completed);
            }
            Phase::Random { name, strategy, cases } => {
                let n = cases / nshards as u64 + u64::from((cases % nshards as u64) > shard as u64);
                if n == 0 {
                    continue;
                }
                let cfg = Config {
                    cases: n as u32,
                    rng_seed: RngSeed::Fixed(seed_for(seed, pi, shard)),
                    failure_persistence: None,
                    max_shrink_iters: 4000,
                    max_global_rejects: 1 << 30,
                    ..Config::default()
                };
                let mut runner = TestRunner::new(cfg);
                let failed = std::cell::Cell::new(false);
                let last_msg = std::cell::RefCell::new(String::new());
                let res = {
                    let st_cell = std::cell::RefCell::new(&mut st);
                    let exec_cell = std::cell::RefCell::new(&mut exec);
                    let counter = std::cell::Cell::new(0u64);
                    runner.run(&strategy, |case| {
                        if !failed.get() && sh.stop.load(Ordering::Relaxed) {
                            return Ok(());
                        }
                        if !failed.get() {
                            // rsass leaks a little per compilation (reference cycles); a long in-process run must not
                            // take the machine down: past the budget the remaining cases are skipped and counted
                            counter.set(counter.get() + 1);
                            if shard == 0 && counter.get() % 512 == 0 && rss_gib() > max_rss_gib() {
                                sh.mem_stop.store(true, Ordering::Relaxed);
                            }
                            if sh.mem_stop.load(Ordering::Relaxed) {
                                *st_cell.borrow_mut().discards.entry("resource: memory budget of the check process reached (VERIF_MAX_RSS_GB), case skipped".to_string()).or_default() += 1;
                                return Ok(());
                            }
                        }
                        let v = exec_cell.borrow_mut().run(&case);
                        if !failed.get() {
                            note(prop, *st_cell.borrow_mut(), name, &case, &v);
                        }
                        if let Outcome::Fail { msg, region } = &v.outcome {
                            match region {
                                Some(r) if sh.enabled.contains(r) => {
                                    if !failed.get() {
                                        *st_cell.borrow_mut().excluded.entry(r.clone()).or_default() += 1;
                                    }
                                    Ok(())
                                }
                                _ => {
                                    failed.set(true);
                                    *last_msg.borrow_mut() = msg.clone();
                                    Err(TestCaseError::fail(msg.clone()))
                                }
                            }
                        } else {
                            Ok(())
                        }
                    })
                };
                match res {
                    Ok(()) => {}
                    Err(TestError::Fail(_reason, case)) => {
                        // re-run the minimal case to get its own message
                        let v = exec.run(&case);
                        let msg = match v.outcome {
                            Outcome::Fail { msg, .. } => msg,
                            _ => last_msg.borrow().clone(),
                        };
                        sh.stop.store(true, Ordering::Relaxed);
                        let mut g = sh.violation.lock().unwrap();
                        if g.is_none() {
                            *g = Some(Violation { case: serde_json::to_value(&case).unwrap(), msg, phase: name.into() });
                        }
                    }
                    Err(TestError::Abort(r)) => {
                        *st.discards.entry(format!("proptest abort: {r}")).or_default() += 1;
                    }
                }
            }
        }
    }
    (st, exhaustive_flags)
}

fn rss_gib() -> f64 {
    std::fs::read_to_string("/proc/self/statm").ok().and_then(|t| t.split_whitespace().nth(1).and_then(|p| p.parse::<f64>().ok())).map(|pages| pages * 4096.0 / (1u64 << 30) as f64).unwrap_or(0.0)
}
fn max_rss_gib() -> f64 {
    std::env::var("VERIF_MAX_RSS_GB").ok().and_then(|s| s.parse().ok()).unwrap_or(36.0)
}

fn write_replay(prop: &str, seed: u64, tier: &str, v: &Violation) -> String {
    let dir = format!("{}/replays", verif_root());
    let _ = std::fs::create_dir_all(&dir);
    let body = json!({"property": prop, "seed": seed, "tier": tier, "phase": v.phase, "message": v.msg, "case": v.case});
    let txt = serde_json::to_string_pretty(&body).unwrap();
    let mut h = std::collections::hash_map::DefaultHasher::new();
    v.case.to_string().hash(&mut h);
    let path = format!("{dir}/{prop}-{:012x}.json", h.finish() & 0xffff_ffff_ffff);
    let _ = std::fs::write(&path, txt);
    path
}

/// run one case given as JSON (witness / regression / replay)
fn run_value<P: Prop>(prop: &P, exec: &mut Exec<P>, v: &Value) -> Result<(P::Case, Verdict), String> {
    let case: P::Case = serde_json::from_value(v.clone()).map_err(|e| format!("cannot decode case: {e}"))?;
    let verdict = exec.run(&case);
    let _ = prop;
    Ok((case, verdict))
}

pub fn main_check<P: Prop>(tier: Tier) -> i32 {
    let prop = P::new();
    let seed = seed_from_env();
    let t0 = Instant::now();
    prop.prepare(tier);
    let mut enabled = HashSet::new();
    let mut known_lines = vec![];
    let mut total = Stats::default();
    let mut violation: Option<Violation> = None;
    {
        let mut exec = Exec::new(&prop);
        // 1. known findings: replay witnesses, enable the regions that still fail
        let mut findings = load_findings(P::ID);
        // open findings first, so that their regions are enabled when the witnesses of fixed ones are replayed
        findings.sort_by_key(|f| f.status != "open");
        for f in findings {
            match run_value(&prop, &mut exec, &f.witness) {
                Err(e) => {
                    println!("known_findings.json: finding {} of {}: {e}", f.id, P::ID);
                    return 2;
                }
                Ok((case, v)) => {
                    note(&prop, &mut total, "witness", &case, &v);
                    match (&v.outcome, f.status.as_str()) {
                        (Outcome::Fail { region: Some(r), .. }, "open") if *r == f.id => {
                            let line = format!("KNOWN-FINDING: property={} {}: {}", P::ID, f.id, f.what);
                            println!("{line}");
                            known_lines.push(line);
                            *total.excluded.entry(f.id.clone()).or_default() += 1;
                            enabled.insert(f.id.clone());
                        }
                        (Outcome::Fail { region: Some(r), .. }, _) if enabled.contains(r) => {
                            // fails, but inside another finding that is open
                            *total.excluded.entry(r.clone()).or_default() += 1;
                        }
                        (Outcome::Fail { msg, .. }, _) => {
                            // a fixed finding that came back, or a witness failing for another reason
                            violation = Some(Violation { case: f.witness.clone(), msg: format!("witness of finding {} ({}): {msg}", f.id, f.status), phase: "witness".into() });
                        }
                        (_, "open") => {
                            println!("note: finding {} no longer reproduces on this tree; its region is disabled", f.id);
                        }
                        _ => {}
                    }
                }
            }
            if violation.is_some() {
                break;
            }
        }
        // 2. regression seeds
        if violation.is_none() {
            let dir = format!("{}/replays/regress/{}", verif_root(), P::ID);
            let mut files: Vec<_> = std::fs::read_dir(&dir).map(|d| d.filter_map(|e| e.ok()).map(|e| e.path()).collect()).unwrap_or_default();
            files.sort();
            for f in files {
                let Ok(txt) = std::fs::read_to_string(&f) else { continue };
                let Ok(val) = serde_json::from_str::<Value>(&txt) else { continue };
                let casev = val.get("case").cloned().unwrap_or(val);
                if let Ok((case, v)) = run_value(&prop, &mut exec, &casev) {
                    note(&prop, &mut total, "regress", &case, &v);
                    if let Outcome::Fail { msg, region } = &v.outcome {
                        if !region.as_ref().is_some_and(|r| enabled.contains(r)) {
                            violation = Some(Violation { case: casev, msg: msg.clone(), phase: "regress".into() });
                            break;
                        } else {
                            *total.excluded.entry(region.clone().unwrap()).or_default() += 1;
                        }
                    }
                }
            }
        }
    }
    let mut exhaustive = false;
    if violation.is_none() {
        let sh = Shared { stop: AtomicBool::new(false), mem_stop: AtomicBool::new(false), violation: Mutex::new(None), enabled };
        let n = threads();
        let results: Vec<(Stats, Vec<bool>)> = std::thread::scope(|s| {
            let hs: Vec<_> = (0..n)
                .map(|shard| {
                    let (prop, sh) = (&prop, &sh);
                    std::thread::Builder::new()
                        .stack_size(64 << 20)
                        .spawn_scoped(s, move || shard_main(prop, tier, seed, shard, n, sh))
                        .expect("spawn shard")
                })
                .collect();
            hs.into_iter().map(|h| h.join().expect("shard thread panicked")).collect()
        });
        let mut flags: Option<Vec<bool>> = None;
        for (st, fl) in results {
            total.merge(st);
            flags = Some(match flags {
                None => fl,
                Some(old) => old.iter().zip(fl.iter()).map(|(a, b)| *a && *b).collect(),
            });
        }
        exhaustive = flags.map(|f| !f.is_empty() && f.iter().all(|b| *b)).unwrap_or(false);
        violation = sh.violation.into_inner().unwrap();
    }
    let wall = t0.elapsed().as_secs_f64();
    let mut code = 0;
    let mut nviol = 0;
    if let Some(v) = &violation {
        let path = write_replay(P::ID, seed, tier.name(), v);
        println!("case: {}", v.case);
        println!("why: {}", v.msg);
        println!("VIOLATION property={} replay={}", P::ID, path);
        code = 1;
        nviol = 1;
    }
    // evidence
    let ndisc: u64 = total.discards.values().sum();
    total.samples.truncate(12);
    let ev = json!({
        "property_id": P::ID,
        "tier": tier.name(),
        "seed": seed,
        "level": P::LEVEL,
        "coverage": {
            "evaluations": total.evaluations,
            "distinct_nontrivial": total.distinct.len(),
            "nontrivial_total": total.nontrivial,
            "rule": prop.rule(),
            "samples": total.samples,
            "classes": total.classes,
            "phases": total.phases,
            "excluded_known": total.excluded,
            "discarded": total.discards,
            "exhaustive": exhaustive,
            "isolated_workers": P::ISOLATED,
        },
        "assumptions": prop.assumptions(),
        "wall_s": wall,
        "violations": nviol,
        "known_findings_reported": known_lines,
    });
    let _ = std::fs::create_dir_all(format!("{}/evidence", verif_root()));
    let _ = std::fs::write(format!("{}/evidence/{}.json", verif_root(), P::ID), serde_json::to_string_pretty(&ev).unwrap() + "\n");
    println!(
        "{} {}: evaluations={} distinct_nontrivial={} excluded_known={} discarded={} wall={:.1}s => {}",
        P::ID,
        tier.name(),
        total.evaluations,
        total.distinct.len(),
        total.excluded.values().sum::<u64>(),
        ndisc,
        wall,
        if code == 0 { "held" } else { "VIOLATED" }
    );
    let harness_bugs: u64 = total.discards.iter().filter(|(k, _)| k.contains("HARNESS PANIC")).map(|(_, v)| *v).sum();
    let resource: u64 = total.discards.iter().filter(|(k, _)| k.contains("timeout") || k.contains("out of memory") || k.contains("worker") || k.starts_with("resource:")).map(|(_, v)| *v).sum();
    if code == 0 && harness_bugs > 0 {
        for (k, v) in total.discards.iter().filter(|(k, _)| k.contains("HARNESS PANIC")) {
            println!("{v}x {k}");
        }
        println!("inconclusive: the harness itself panicked on {harness_bugs} case(s)");
        return 2;
    }
    // (cases skipped for the memory budget are not evaluations, so compare with what was planned)
    let planned = total.evaluations + total.discards.iter().filter(|(k, _)| k.starts_with("resource: memory budget")).map(|(_, v)| *v).sum::<u64>();
    if code == 0 && planned > 0 && resource * 20 > planned {
        println!("inconclusive: more than 5% of the cases hit the watchdog or a resource limit");
        return 2;
    }
    code
}

/// `./check Cxx --replay file`: exit 1 (with a VIOLATION line) iff the case still fails
pub fn main_replay<P: Prop>(path: &str) -> i32 {
    let prop = P::new();
    prop.prepare(Tier::Quick);
    let txt = match std::fs::read_to_string(path) {
        Ok(t) => t,
        Err(e) => {
            println!("cannot read {path}: {e}");
            return 2;
        }
    };
    let val: Value = match serde_json::from_str(&txt) {
        Ok(v) => v,
        Err(e) => {
            println!("cannot parse {path}: {e}");
            return 2;
        }
    };
    let casev = val.get("case").cloned().unwrap_or(val);
    let mut exec = Exec::new(&prop);
    match run_value(&prop, &mut exec, &casev) {
        Err(e) => {
            println!("{e}");
            2
        }
        Ok((_case, v)) => match v.outcome {
            Outcome::Fail { msg, region } => {
                println!("case: {casev}");
                println!("why: {msg}");
                if let Some(r) = region {
                    println!("(inside known-finding region {r})");
                }
                println!("VIOLATION property={} replay={}", P::ID, path);
                1
            }
            Outcome::Pass => {
                println!("{}: replayed case passes", P::ID);
                0
            }
            Outcome::Discard(w) => {
                println!("{}: replayed case discarded: {w}", P::ID);
                2
            }
        },
    }
}

/// `vcheck --worker Cxx`: read cases (one JSON per line), answer verdicts
pub fn main_worker<P: Prop>() -> i32 {
    worker::serve(move |prop: &P, line: &str| match serde_json::from_str::<P::Case>(line) {
        Ok(case) => crate::rs::guard(|| prop.check(&case)),
        Err(e) => Verdict::discard(format!("worker cannot decode case: {e}")),
    })
}
