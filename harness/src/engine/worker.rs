//! Worker subprocesses: `vcheck --worker Cxx` reads one JSON case per line on
//! stdin and answers one JSON verdict per line on stdout.  The parent
//! attributes a death (signal, abort, stack overflow) to the in-flight case
//! and discards cases that exceed the watchdog.

use super::{Prop, Verdict};
use std::io::{BufRead, BufReader, Read, Write};
use std::process::{Child, ChildStdin, Command, Stdio};
use std::sync::mpsc::{channel, Receiver, RecvTimeoutError};
use std::sync::{Arc, Mutex};
use std::time::Duration;

pub struct Worker {
    child: Child,
    stdin: ChildStdin,
    rx: Receiver<String>,
    err_tail: Arc<Mutex<Vec<u8>>>,
}

pub fn scratch_dir() -> std::path::PathBuf {
    let pid = std::env::var("VCHECK_PARENT").ok().unwrap_or_else(|| std::process::id().to_string());
    std::env::temp_dir().join(format!("vcheck-{pid}"))
}

impl Worker {
    fn spawn(id: &str) -> std::io::Result<Worker> {
        let exe = std::env::current_exe()?;
        let empty = scratch_dir().join("empty");
        std::fs::create_dir_all(&empty)?;
        let mut child = Command::new(exe)
            .arg("--worker")
            .arg(id)
            .env("VCHECK_PARENT", std::env::var("VCHECK_PARENT").unwrap_or_else(|_| std::process::id().to_string()))
            .current_dir(&empty)
            .stdin(Stdio::piped())
            .stdout(Stdio::piped())
            .stderr(Stdio::piped())
            .spawn()?;
        let stdin = child.stdin.take().unwrap();
        let stdout = child.stdout.take().unwrap();
        let mut stderr = child.stderr.take().unwrap();
        let (tx, rx) = channel();
        std::thread::spawn(move || {
            let mut r = BufReader::new(stdout);
            loop {
                let mut line = String::new();
                match r.read_line(&mut line) {
                    Ok(0) | Err(_) => break,
                    Ok(_) => {
                        if tx.send(line).is_err() {
                            break;
                        }
                    }
                }
            }
        });
        let err_tail = Arc::new(Mutex::new(Vec::new()));
        let tail2 = err_tail.clone();
        std::thread::spawn(move || {
            let mut buf = [0u8; 4096];
            loop {
                match stderr.read(&mut buf) {
                    Ok(0) | Err(_) => break,
                    Ok(n) => {
                        let mut t = tail2.lock().unwrap();
                        t.extend_from_slice(&buf[..n]);
                        if t.len() > 8192 {
                            let cut = t.len() - 4096;
                            t.drain(..cut);
                        }
                    }
                }
            }
        });
        Ok(Worker { child, stdin, rx, err_tail })
    }
    fn tail(&self) -> String {
        // give the stderr reader a moment to drain
        std::thread::sleep(Duration::from_millis(20));
        let t = self.err_tail.lock().unwrap();
        let s = String::from_utf8_lossy(&t).to_string();
        let lines: Vec<&str> = s.lines().filter(|l| !l.trim().is_empty()).collect();
        lines.iter().rev().take(3).rev().cloned().collect::<Vec<_>>().join(" | ")
    }
}
impl Drop for Worker {
    fn drop(&mut self) {
        let _ = self.child.kill();
        let _ = self.child.wait();
    }
}

/// Err(description) when the worker died while running the case
pub fn run_in_worker(slot: &mut Option<Worker>, id: &str, line: &str, timeout_ms: u64) -> Result<Verdict, String> {
    if slot.is_none() {
        match Worker::spawn(id) {
            Ok(w) => *slot = Some(w),
            Err(e) => return Ok(Verdict::discard(format!("cannot spawn worker: {e}"))),
        }
    }
    let w = slot.as_mut().unwrap();
    let mut dead = w.stdin.write_all(line.as_bytes()).is_err();
    dead = dead || w.stdin.write_all(b"\n").is_err() || w.stdin.flush().is_err();
    let reply = if dead { Err(RecvTimeoutError::Disconnected) } else { w.rx.recv_timeout(Duration::from_millis(timeout_ms)) };
    match reply {
        Ok(l) => match serde_json::from_str::<Verdict>(&l) {
            Ok(v) => Ok(v),
            Err(e) => {
                *slot = None;
                Ok(Verdict::discard(format!("bad worker reply: {e}")))
            }
        },
        Err(RecvTimeoutError::Timeout) => {
            *slot = None; // Drop kills it
            Ok(Verdict::discard("timeout"))
        }
        Err(RecvTimeoutError::Disconnected) => {
            let status = w.child.wait().map(|s| s.to_string()).unwrap_or_else(|e| e.to_string());
            let tail = w.tail();
            *slot = None;
            if tail.contains("memory allocation of") {
                Ok(Verdict::discard("out of memory (allocation failure under the worker's address-space limit)"))
            } else {
                Err(format!("worker process died ({status}): {tail}"))
            }
        }
    }
}

pub fn serve<P: Prop>(f: impl Fn(&P, &str) -> Verdict + Send + 'static) -> i32 {
    // address-space limit so a runaway allocation is an allocation failure, not a host OOM
    unsafe {
        let lim = libc::rlimit { rlim_cur: 6 << 30, rlim_max: 6 << 30 };
        libc::setrlimit(libc::RLIMIT_AS, &lim);
    }
    let h = std::thread::Builder::new()
        .stack_size(8 << 20)
        .spawn(move || {
            let prop = P::new();
            let stdin = std::io::stdin();
            let stdout = std::io::stdout();
            let mut out = stdout.lock();
            for line in stdin.lock().lines() {
                let Ok(line) = line else { break };
                let v = f(&prop, &line);
                let s = serde_json::to_string(&v).unwrap();
                if out.write_all(s.as_bytes()).is_err() || out.write_all(b"\n").is_err() || out.flush().is_err() {
                    break;
                }
            }
        })
        .expect("spawn worker thread");
    let _ = h.join();
    0
}
