//! C03 Each module is executed once per compilation.

use crate::cssread::{self, Node};
use crate::engine::{Phase, Prop, Tier, Verdict};
use crate::gen::graph::{file_name, spell, Kind, NAMES, N_SPELLINGS};
use crate::rs::{self, Opts, Res};
use proptest::prelude::*;
use serde::{Deserialize, Serialize};

pub struct C03;

#[derive(Clone, Debug, Serialize, Deserialize, PartialEq)]
pub struct Use {
    pub forward: bool,
    pub target: usize,
    pub spelling: usize,
    /// assign this value to the target's variable through the namespace (only for @use)
    pub assign: Option<u32>,
    /// `with ($v_t: n)` on this load (only for @use)
    #[serde(default)]
    pub with: Option<u32>,
}

#[derive(Clone, Debug, Serialize, Deserialize)]
pub struct Case {
    /// files[f] = loads of file f; targets have a higher index than f (acyclic)
    pub files: Vec<Vec<Use>>,
    /// in_sub[f]: file f (f >= 1) lives in `sub/`; a root-level module is then found only by the fallback that tries
    /// the URL unchanged from the base directory
    #[serde(default)]
    pub in_sub: Vec<bool>,
}

fn sub(c: &Case, f: usize) -> bool {
    f > 0 && c.in_sub.get(f).copied().unwrap_or(false)
}

fn fname(c: &Case, f: usize) -> String {
    if sub(c, f) { format!("sub/{}", file_name(f)) } else { file_name(f) }
}

/// URL of target t as written in file f
fn url_of(c: &Case, f: usize, t: usize, s: usize) -> String {
    match (sub(c, f), sub(c, t)) {
        // siblings, or a root module seen from sub/ (relative lookup fails, the unchanged URL is found from the base directory)
        (false, false) | (true, true) | (true, false) => spell(t, s),
        (false, true) => {
            let n = NAMES[t];
            match s % N_SPELLINGS {
                0 => format!("sub/{n}"),
                1 => format!("./sub/{n}"),
                2 => format!("sub/d/../{n}"),
                3 => format!("d/../sub/{n}"),
                4 => format!("sub/_{n}"),
                _ => format!("sub/_{n}.scss"),
            }
        }
    }
}

fn ordered(c: &Case, f: usize) -> Vec<&Use> {
    let mut v: Vec<&Use> = c.files[f].iter().filter(|u| !u.forward).collect();
    v.extend(c.files[f].iter().filter(|u| u.forward));
    v
}

/// modules whose members are visible through module t (t itself and what it forwards, transitively)
fn visible(c: &Case, t: usize) -> Vec<usize> {
    let mut v = vec![t];
    for u in c.files[t].iter().filter(|u| u.forward) {
        for x in visible(c, u.target) {
            if !v.contains(&x) {
                v.push(x);
            }
        }
    }
    v
}

fn source(c: &Case, f: usize) -> String {
    let mut s = String::new();
    let loads = ordered(c, f);
    for (i, u) in loads.iter().enumerate() {
        let url = url_of(c, f, u.target, u.spelling);
        if u.forward {
            s.push_str(&format!("@forward \"{url}\";\n"));
        } else {
            match u.with {
                Some(w) => s.push_str(&format!("@use \"{url}\" as n{i} with ($v_{}: {w});\n", NAMES[u.target])),
                None => s.push_str(&format!("@use \"{url}\" as n{i};\n")),
            }
        }
    }
    s.push_str(&format!("$v_{}: {} !default;\n", NAMES[f], 10 * (f + 1)));
    for (i, u) in loads.iter().enumerate() {
        if let (false, Some(v)) = (u.forward, u.assign) {
            s.push_str(&format!("n{i}.$v_{}: {v};\n", NAMES[u.target]));
        }
    }
    s.push_str(&format!(".r_{} {{\n  own: $v_{};\n", NAMES[f], NAMES[f]));
    for (i, u) in loads.iter().enumerate() {
        if !u.forward {
            for x in visible(c, u.target) {
                s.push_str(&format!("  r{i}_{}: n{i}.$v_{};\n", NAMES[x], NAMES[x]));
            }
        }
    }
    s.push_str("}\n");
    s.push_str(&format!(".m_{} {{ k: v }}\n", NAMES[f]));
    s
}

/// expected rules in order: (selector, declarations)
fn model(c: &Case) -> Vec<(String, Vec<(String, String)>)> {
    fn exec(c: &Case, f: usize, cfg: Option<u32>, done: &mut Vec<bool>, vars: &mut Vec<u32>, out: &mut Vec<(String, Vec<(String, String)>)>) {
        let loads: Vec<Use> = ordered(c, f).into_iter().cloned().collect();
        for u in &loads {
            if !done[u.target] {
                done[u.target] = true;
                exec(c, u.target, if u.forward { None } else { u.with }, done, vars, out);
            }
        }
        vars[f] = cfg.unwrap_or(10 * (f as u32 + 1));
        for u in &loads {
            if let (false, Some(v)) = (u.forward, u.assign) {
                vars[u.target] = v;
            }
        }
        let mut decls = vec![("own".to_string(), vars[f].to_string())];
        for (i, u) in loads.iter().enumerate() {
            if !u.forward {
                for x in visible(c, u.target) {
                    decls.push((format!("r{i}_{}", NAMES[x]), vars[x].to_string()));
                }
            }
        }
        out.push((format!(".r_{}", NAMES[f]), decls));
        out.push((format!(".m_{}", NAMES[f]), vec![("k".into(), "v".into())]));
    }
    let n = c.files.len();
    let mut out = vec![];
    exec(c, 0, None, &mut vec![false; n], &mut vec![0; n], &mut out);
    out
}

/// is some module configured (`with`) by a load that is not its first load?
fn late_config(c: &Case) -> bool {
    fn exec(c: &Case, f: usize, done: &mut Vec<bool>, late: &mut bool) {
        let loads: Vec<Use> = ordered(c, f).into_iter().cloned().collect();
        for u in &loads {
            if !done[u.target] {
                done[u.target] = true;
                exec(c, u.target, done, late);
            } else if u.with.is_some() {
                *late = true;
            }
        }
    }
    let mut late = false;
    exec(c, 0, &mut vec![false; c.files.len()], &mut late);
    late
}

fn cases(n: usize) -> impl Strategy<Value = Case> {
    let file = move |f: usize| {
        let lo = f + 1;
        if lo >= n {
            Just(vec![]).boxed()
        } else {
            proptest::collection::vec((proptest::bool::weighted(0.3), lo..n, 0..N_SPELLINGS, proptest::option::weighted(0.4, 100u32..1000), proptest::option::weighted(0.25, 1000u32..2000)).prop_map(|(forward, target, spelling, assign, with)| Use { forward, target, spelling, assign, with: if forward { None } else { with } }), 0..=3).boxed()
        }
    };
    ((0..n).map(file).collect::<Vec<_>>(), proptest::collection::vec(proptest::bool::weighted(0.3), n)).prop_map(|(files, in_sub)| {
        // a file may not load the same module twice with @use under two namespaces *and* forward it; that is legal, keep it
        Case { files, in_sub }
    })
}

impl Prop for C03 {
    type Case = Case;
    const ID: &'static str = "C03";
    fn new() -> Self {
        C03
    }
    fn rule(&self) -> String {
        "acyclic @use/@forward graphs over 3 and 4 files (root a, partials _b, _c, _d, each with probability 0.3 in sub/, so that some modules are found relative to their user and others only by the unchanged URL from the base directory), up to 3 loads per file, every load spelled as one of `t`, `./t`, `d/../t`, `d/./../t`, `_t`, `_t.scss`; every module owns a variable, emits a marker rule and a rule printing its own variable and every variable it can see through each namespace (also through @forward chains); a quarter of the @use loads configure the target (`with`; on a load that is not the module's first one an error is accepted, otherwise the configuration is ignored by the model); 40% of the @use loads assign a new value to the target's variable through the namespace. Oracle: a one-instance-per-module model predicts the exact sequence of rules and every printed value; the output is read with the independent CSS reader. Non-trivial: a module reachable by two paths or two spellings; distinct by graph".into()
    }
    fn phases(&self, tier: Tier) -> Vec<Phase<Case>> {
        vec![Phase::random("3-files", cases(3), tier.pick(15_000, 600_000)), Phase::random("4-files", cases(4), tier.pick(15_000, 600_000))]
    }
    fn render(&self, c: &Case) -> serde_json::Value {
        serde_json::json!((0..c.files.len()).map(|f| (fname(c, f), source(c, f))).collect::<Vec<_>>())
    }
    fn check(&self, c: &Case) -> Verdict {
        let _ = Kind::Use;
        let files: Vec<(String, String)> = (0..c.files.len()).map(|f| (fname(c, f), source(c, f))).collect();
        let want = model(c);
        let out = match rs::compile_files(&files, "a.scss", &Opts::default()) {
            Res::Ok(o) => String::from_utf8_lossy(&o).to_string(),
            Res::Panic(m) => return Verdict::fail(format!("panic: {m}")),
            r => {
                // configuring a module that is already loaded is an error in Sass; otherwise the graph is valid
                return if late_config(c) { Verdict::pass(false).class("late-configuration-rejected") } else { Verdict::fail(format!("a valid module graph fails: {}; files: {files:?}", r.brief().chars().take(200).collect::<String>())) };
            }
        };
        let nodes = match cssread::parse_sheet(&out) {
            Ok(n) => n,
            Err(e) => return Verdict::fail(format!("unreadable output ({e}): {out:?}")),
        };
        let got: Vec<(String, Vec<(String, String)>)> = nodes
            .iter()
            .filter_map(|n| match n {
                Node::Rule { prelude, body } => Some((prelude.clone(), body.iter().filter_map(|d| match d { Node::Decl { name, value } => Some((name.clone(), value.clone())), _ => None }).collect())),
                _ => None,
            })
            .collect();
        let mut targets: Vec<(usize, usize)> = c.files.iter().flatten().map(|u| (u.target, u.spelling)).collect();
        targets.sort();
        let multi = targets.windows(2).any(|w| w[0].0 == w[1].0);
        if got == want {
            return Verdict::pass(multi).class_if(multi, "module-reached-twice");
        }
        // known deviation: a module that forwards another one is seen through a merged *copy* of its members per
        // @use, so assignments through (or reads from) such a namespace do not reach the one module instance.
        // Deviant model: everything agrees once the values read through namespaces of forwarding modules are ignored
        // (their presence, the rule sequence and every other value must still match).
        let strip = |rules: &Vec<(String, Vec<(String, String)>)>| -> Vec<(String, Vec<(String, String)>)> {
            rules
                .iter()
                .map(|(sel, decls)| {
                    let f = NAMES.iter().position(|n| sel.strip_prefix(".r_") == Some(*n));
                    let decls = decls
                        .iter()
                        .map(|(k, v)| {
                            let through_forwarder = f.is_some_and(|f| {
                                let loads = ordered(c, f);
                                k.strip_prefix('r').and_then(|r| r.split('_').next()).and_then(|i| i.parse::<usize>().ok()).and_then(|i| loads.get(i).map(|u| c.files[u.target].iter().any(|x| x.forward))).unwrap_or(false)
                            });
                            // values assigned through a forwarding namespace also never arrive: ignore the own value of modules that are assigned to that way
                            (k.clone(), if through_forwarder { "*".to_string() } else { v.clone() })
                        })
                        .collect();
                    (sel.clone(), decls)
                })
                .collect()
        };
        let assigned_through_forwarder = c.files.iter().flatten().any(|u| !u.forward && u.assign.is_some() && c.files[u.target].iter().any(|x| x.forward));
        if strip(&got) == strip(&want) || (assigned_through_forwarder && got.iter().map(|g| &g.0).eq(want.iter().map(|w| &w.0))) {
            return Verdict::known("C03-forwarding-module-members-copied", format!("values seen through a forwarding module differ from the single instance; files: {files:?}; got {got:?}; want {want:?}"));
        }
        // explain
        for (sel, _) in &want {
            let n = got.iter().filter(|(s, _)| s == sel).count();
            if n != 1 {
                return Verdict::fail(format!("rule {sel} appears {n} times in the output (each module must be executed exactly once); files: {files:?}; output: {out:?}"));
            }
        }
        let k = got.iter().zip(want.iter()).position(|(g, w)| g != w).unwrap_or(0);
        Verdict::fail(format!("rule {} differs: got {:?}, a single module instance gives {:?}; files: {files:?}", k, got.get(k), want.get(k)))
    }
}
