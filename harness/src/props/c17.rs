//! C17 Control-flow directives run the specified iterations.

use crate::engine::{Phase, Prop, Tier, Verdict};
use crate::rs::{self, Opts, Res};
use proptest::prelude::*;
use serde::{Deserialize, Serialize};

pub struct C17;

/// where the directive is evaluated: 0 style rule, 1 @function body (a second implementation in rsass), 2 mixin body
type Ctx = u8;

#[derive(Clone, Debug, Serialize, Deserialize, PartialEq)]
pub enum Item {
    Atom(String),
    /// (elements, separator: 0 space 1 comma, bracketed)
    List(Vec<String>, u8, bool),
}

#[derive(Clone, Debug, Serialize, Deserialize)]
pub enum Case {
    For { a: i32, ua: String, b: i32, ub: String, through: bool, ctx: Ctx },
    /// list given by items + outer separator (0 space, 1 comma) + bracketed; or `map` entries; or a single value
    Each { vars: usize, items: Vec<Item>, sep: u8, bracketed: bool, ctx: Ctx },
    EachMap { vars: usize, entries: Vec<(String, String)>, ctx: Ctx },
    If { conds: Vec<usize>, has_else: bool, ctx: Ctx },
    While { k: u32, form: u8, ctx: Ctx },
}

const ATOMS: &[&str] = &["1", "2", "a", "b", "null", "true", "10px", "c-d"];
const TRUTH: &[(&str, bool)] = &[("true", true), ("false", false), ("null", false), ("0", true), ("\"\"", true), ("()", true), ("1 == 2", false), ("1 < 2", true), ("not null", true), ("$u", false), ("a", true), ("(false,)", true)];

/// factor of a unit to the base of its dimension
fn unit(u: &str) -> Option<(&'static str, f64)> {
    Some(match u {
        "px" => ("len", 1.0),
        "in" => ("len", 96.0),
        "pt" => ("len", 96.0 / 72.0),
        "pc" => ("len", 16.0),
        "s" => ("time", 1.0),
        "ms" => ("time", 0.001),
        "deg" => ("angle", 1.0),
        "turn" => ("angle", 360.0),
        "em" => ("em", 1.0),
        _ => return None,
    })
}

fn item_src(it: &Item, outer_sep: u8) -> String {
    match it {
        Item::Atom(a) => a.clone(),
        Item::List(v, sep, br) => {
            let body = v.join(if *sep == 1 { ", " } else { " " });
            if *br {
                format!("[{body}]")
            } else if *sep == 1 || outer_sep == 0 || v.len() < 2 {
                // a comma list always needs parentheses inside another list; a space list inside a space list too
                if v.len() == 1 { format!("({},)", v[0]) } else { format!("({body})") }
            } else {
                body
            }
        }
    }
}

/// inspect() text of an item bound whole to one variable
fn item_inspect(it: &Item) -> String {
    match it {
        Item::Atom(a) => a.clone(),
        Item::List(v, sep, br) => {
            let body = v.join(if *sep == 1 { ", " } else { " " });
            if *br { format!("[{body}]") } else if v.len() == 1 { format!("({},)", v[0]) } else { body }
        }
    }
}

fn wrap(ctx: Ctx, loop_src: &str) -> String {
    let prelude = "$acc: ();\n$u: null;\n@function obs($v) { $acc: append($acc, $v, comma) !global; @return 0; }\n";
    match ctx {
        1 => format!("{prelude}@function run() {{\n{loop_src}\n@return 0;\n}}\nzzq {{ p0: run(); p1: inspect($acc); p2: length($acc); }}\n"),
        2 => format!("{prelude}@mixin run() {{\n{loop_src}\n}}\nzzq {{ @include run; p1: inspect($acc); p2: length($acc); }}\n"),
        _ => format!("{prelude}zzq {{\n{loop_src}\np1: inspect($acc); p2: length($acc); }}\n"),
    }
}

/// a statement recording the observation `expr` (a string expression)
fn record(expr: &str) -> String {
    format!("$ignore: obs({expr});")
}

fn build(c: &Case) -> (String, Result<Vec<String>, ()>, Ctx) {
    match c {
        Case::For { a, ua, b, ub, through, ctx } => {
            let src = wrap(*ctx, &format!("@for $i from {a}{ua} {} {b}{ub} {{ {} }}", if *through { "through" } else { "to" }, record("\"#{inspect($i)}\"")));
            // b in a's unit
            let bb: Result<f64, ()> = if ua == ub || ub.is_empty() || ua.is_empty() {
                Ok(*b as f64)
            } else {
                match (unit(ua), unit(ub)) {
                    (Some((d1, f1)), Some((d2, f2))) if d1 == d2 => Ok(*b as f64 * f2 / f1),
                    _ => Err(()),
                }
            };
            let want = bb.and_then(|bb| {
                let r = bb.round();
                if (bb - r).abs() > 1e-9 {
                    return Err(());
                }
                let (a, b) = (*a as i64, r as i64);
                let mut v = vec![];
                let mut i = a;
                if b >= a {
                    while if *through { i <= b } else { i < b } {
                        v.push(format!("\"{i}{ua}\""));
                        i += 1;
                    }
                } else {
                    while if *through { i >= b } else { i > b } {
                        v.push(format!("\"{i}{ua}\""));
                        i -= 1;
                    }
                }
                Ok(v)
            });
            (src, want, *ctx)
        }
        Case::Each { vars, items, sep, bracketed, ctx } => {
            let names = ["$x", "$y", "$z"];
            // a bracketed list with one sub-list item has no unambiguous spelling: use the sub-list's first atom
            let items: Vec<Item> = if items.len() == 1 && *bracketed { items.iter().map(|i| match i { Item::List(v, ..) => Item::Atom(v[0].clone()), a => a.clone() }).collect() } else { items.clone() };
            let items = &items;
            let list = if items.is_empty() {
                if *bracketed { "[]".to_string() } else { "()".to_string() }
            } else if items.len() == 1 && !*bracketed {
                // a single value (possibly itself a list) is iterated as given
                item_src(&items[0], 1)
            } else {
                let body = items.iter().map(|i| item_src(i, *sep)).collect::<Vec<_>>().join(if *sep == 1 { ", " } else { " " });
                if *bracketed { format!("[{body}]") } else { body }
            };
            let obs = names[..*vars].iter().map(|n| format!("#{{inspect({n})}}")).collect::<Vec<_>>().join("/");
            let src = wrap(*ctx, &format!("@each {} in {list} {{ {} }}", names[..*vars].join(", "), record(&format!("\"{obs}\""))));
            // what is iterated
            let iter_items: Vec<Item> = if items.len() == 1 && !*bracketed {
                match &items[0] {
                    Item::List(v, s, _) => v.iter().map(|a| { let _ = s; Item::Atom(a.clone()) }).collect(),
                    a => vec![a.clone()],
                }
            } else {
                items.clone()
            };
            let want = iter_items
                .iter()
                .map(|it| {
                    let parts: Vec<String> = if *vars == 1 {
                        vec![item_inspect(it)]
                    } else {
                        let elems: Vec<String> = match it {
                            Item::Atom(a) => vec![a.clone()],
                            Item::List(v, _, _) => v.clone(),
                        };
                        (0..*vars).map(|k| elems.get(k).cloned().unwrap_or("null".into())).collect()
                    };
                    format!("\"{}\"", parts.join("/"))
                })
                .collect();
            (src, Ok(want), *ctx)
        }
        Case::EachMap { vars, entries, ctx } => {
            let names = ["$x", "$y", "$z"];
            let map = format!("({})", entries.iter().map(|(k, v)| format!("{k}: {v}")).collect::<Vec<_>>().join(", "));
            let obs = names[..*vars].iter().map(|n| format!("#{{inspect({n})}}")).collect::<Vec<_>>().join("/");
            let src = wrap(*ctx, &format!("@each {} in {map} {{ {} }}", names[..*vars].join(", "), record(&format!("\"{obs}\""))));
            let want = entries
                .iter()
                .map(|(k, v)| {
                    let parts: Vec<String> = match vars {
                        1 => vec![format!("{k} {v}")],
                        2 => vec![k.clone(), v.clone()],
                        _ => vec![k.clone(), v.clone(), "null".into()],
                    };
                    format!("\"{}\"", parts.join("/"))
                })
                .collect();
            (src, Ok(want), *ctx)
        }
        Case::If { conds, has_else, ctx } => {
            let mut s = String::new();
            for (i, ci) in conds.iter().enumerate() {
                let (t, _) = TRUTH[*ci % TRUTH.len()];
                if i == 0 {
                    s.push_str(&format!("@if {t} {{ {} }}", record(&format!("\"branch{i}\""))));
                } else {
                    s.push_str(&format!(" @else if {t} {{ {} }}", record(&format!("\"branch{i}\""))));
                }
            }
            if *has_else {
                s.push_str(&format!(" @else {{ {} }}", record("\"else\"")));
            }
            let first = conds.iter().position(|ci| TRUTH[*ci % TRUTH.len()].1);
            let want = match first {
                Some(i) => vec![format!("\"branch{i}\"")],
                None if *has_else => vec!["\"else\"".to_string()],
                None => vec![],
            };
            (wrap(*ctx, &s), Ok(want), *ctx)
        }
        Case::While { k, form, ctx } => {
            let cond = match form {
                0 => "$n > 0",
                1 => "$n != 0",
                2 => "not ($n == 0)",
                _ => "if($n > 0, $n, null)",
            };
            let s = format!("$n: {k} !global;\n@while {cond} {{ {} $n: $n - 1 !global; }}", record("\"#{$n}\""));
            let want = (1..=*k).rev().map(|i| format!("\"{i}\"")).collect();
            (wrap(*ctx, &s), Ok(want), *ctx)
        }
    }
}

fn items() -> impl Strategy<Value = Vec<Item>> {
    let atom = proptest::sample::select(ATOMS).prop_map(|a| Item::Atom(a.to_string()));
    let sub = (proptest::collection::vec(proptest::sample::select(ATOMS).prop_map(|s| s.to_string()), 1..5), 0u8..2, proptest::bool::weighted(0.2)).prop_map(|(v, s, b)| Item::List(v, s, b));
    proptest::collection::vec(prop_oneof![3 => atom, 2 => sub], 0..7)
}

fn cases() -> impl Strategy<Value = Case> {
    let units = proptest::sample::select(&["", "", "px", "in", "pt", "pc", "s", "ms", "deg", "turn", "em"][..]).prop_map(|s| s.to_string());
    prop_oneof![
        4 => (-6i32..=6, units.clone(), -6i32..=6, units, any::<bool>(), 0u8..3).prop_map(|(a, ua, b, ub, through, ctx)| Case::For { a, ua, b, ub, through, ctx }),
        // convertible with an integral result: b is a multiple in the other unit
        2 => (-3i32..=3, -3i32..=3, any::<bool>(), 0u8..3, 0usize..4).prop_map(|(a, b, through, ctx, p)| {
            let (ua, ub, f) = [("in", "px", 96), ("pc", "pt", 12), ("s", "ms", 1000), ("turn", "deg", 360)][p];
            Case::For { a, ua: ua.into(), b: b * f, ub: ub.into(), through, ctx }
        }),
        5 => (1usize..=3, items(), 0u8..2, proptest::bool::weighted(0.2), 0u8..3).prop_map(|(vars, items, sep, bracketed, ctx)| Case::Each { vars, items, sep, bracketed, ctx }),
        2 => (1usize..=3, proptest::collection::vec((proptest::sample::select(&["k1", "k2", "3", "a"][..]), proptest::sample::select(ATOMS)), 0..4), 0u8..3).prop_map(|(vars, e, ctx)| {
            let mut entries: Vec<(String, String)> = vec![];
            for (k, v) in e {
                if !entries.iter().any(|(k2, _)| k2 == k) {
                    entries.push((k.to_string(), v.to_string()));
                }
            }
            if entries.is_empty() {
                entries.push(("k1".into(), "1".into()));
            }
            Case::EachMap { vars, entries, ctx }
        }),
        3 => (proptest::collection::vec(0usize..TRUTH.len(), 1..5), any::<bool>(), 0u8..3).prop_map(|(conds, has_else, ctx)| Case::If { conds, has_else, ctx }),
        1 => (0u32..6, 0u8..4, 0u8..3).prop_map(|(k, form, ctx)| Case::While { k, form, ctx }),
    ]
}

impl Prop for C17 {
    type Case = Case;
    const ID: &'static str = "C17";
    fn new() -> Self {
        C17
    }
    fn rule(&self) -> String {
        "@for with bounds in [-6, 6], through/to, units on either bound (same, convertible with integral and non-integral result, incompatible, none); @each with 1..3 variables over lists of 0..6 items (atoms and nested space/comma/bracketed sub-lists of 1..4 atoms, space or comma separated, bracketed or not), over single values and over maps; @if/@else if/@else chains of 1..4 conditions from a truthiness pool; @while with a counter and four condition forms; each evaluated in a style rule, in a @function body (rsass's second evaluator) and in a mixin body. Every iteration records its bindings through a global accumulator; oracle: a reference model gives the exact sequence (or that an error is required). Non-trivial: >= 2 iterations, destructuring with missing or excess positions, a unit conversion on the bound, or a chain whose first condition is falsey; distinct by case".into()
    }
    fn phases(&self, tier: Tier) -> Vec<Phase<Case>> {
        vec![Phase::random("control-flow", cases(), tier.pick(40_000, 2_000_000))]
    }
    fn render(&self, c: &Case) -> serde_json::Value {
        let (src, want, _) = build(c);
        serde_json::json!({"src": src, "expected": format!("{want:?}")})
    }
    fn check(&self, c: &Case) -> Verdict {
        let (src, want, _) = build(c);
        let r = rs::compile(src.as_bytes(), &Opts::default());
        let nontrivial = match (c, &want) {
            (Case::For { ua, ub, .. }, Ok(v)) => v.len() >= 2 || (ua != ub && !ub.is_empty() && !ua.is_empty()),
            (Case::For { .. }, Err(())) => true,
            (Case::Each { vars, items, .. }, _) => items.len() >= 2 || (*vars > 1 && !items.is_empty()),
            (Case::EachMap { entries, .. }, _) => entries.len() >= 2,
            (Case::If { conds, .. }, _) => conds.len() >= 2,
            (Case::While { k, .. }, _) => *k >= 2,
        };
        let kind = match c {
            Case::For { .. } => "for",
            Case::Each { .. } => "each-list",
            Case::EachMap { .. } => "each-map",
            Case::If { .. } => "if",
            Case::While { .. } => "while",
        };
        match (want, r) {
            (_, Res::Panic(m)) => Verdict::fail(format!("panic: {m}\n{src}")),
            (Err(()), Res::Err { .. }) => Verdict::pass(nontrivial).class("error-required").class(kind),
            (Err(()), Res::Ok(o)) => Verdict::fail(format!("the bounds are not convertible to an integer range, an error is required; got {:?}\n{src}", String::from_utf8_lossy(&o))),
            (Ok(w), Res::Err { text, .. }) => Verdict::fail(format!("expected iterations {w:?} but compilation fails: {}\n{src}", text.lines().next().unwrap_or(""))),
            (Ok(w), Res::Ok(o)) => {
                let out = String::from_utf8_lossy(&o).to_string();
                let p1 = out.lines().find_map(|l| l.trim().strip_prefix("p1: ")).map(|s| s.trim_end_matches(';').to_string());
                let p2 = out.lines().find_map(|l| l.trim().strip_prefix("p2: ")).map(|s| s.trim_end_matches(';').to_string());
                let expect_p1 = match w.len() {
                    0 => "()".to_string(),
                    1 => format!("({},)", w[0]),
                    _ => w.join(", "),
                };
                if p1.as_deref() == Some(&expect_p1) && p2.as_deref() == Some(&w.len().to_string()) {
                    Verdict::pass(nontrivial).class(kind).class(format!("ctx-{}", match c { Case::For { ctx, .. } | Case::Each { ctx, .. } | Case::EachMap { ctx, .. } | Case::If { ctx, .. } | Case::While { ctx, .. } => ctx }))
                } else {
                    Verdict::fail(format!("recorded bindings {p1:?} (count {p2:?}), the model gives {expect_p1} (count {})\n{src}", w.len()))
                }
            }
        }
    }
}
