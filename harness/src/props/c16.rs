//! C16 Variable assignment follows Sass scoping.
//! Generated programs over $a $b $c against a reference interpreter of Sass scoping.

use crate::engine::{Phase, Prop, Tier, Verdict};
use crate::rs::{self, Opts, Res};
use proptest::prelude::*;
use serde::{Deserialize, Serialize};
use std::collections::HashMap;

pub struct C16;

#[derive(Clone, Debug, Serialize, Deserialize, PartialEq)]
pub enum S {
    /// `$v: <n> [!global] [!default];`  (the value is the statement's serial number, filled in when printing)
    Set { v: u8, global: bool, default: bool, null: bool },
    /// record the visible value of `$v` (or `undef`)
    Read { v: u8 },
    Rule(Vec<S>),
    Media(Vec<S>),
    If { cond: bool, then: Vec<S>, els: Vec<S> },
    /// `@each $<lv> in 1 2` (lv: 0..=2 one of a b c, 3 = $i), `n` iterations
    Each { lv: u8, n: u8, body: Vec<S> },
    For { lv: u8, n: u8, body: Vec<S> },
    While { n: u8, body: Vec<S> },
    /// `@include m<k>` with optional content block
    Include { m: u8, content: Option<Vec<S>> },
    /// `$ignore: f<k>();`
    Call { f: u8 },
}

#[derive(Clone, Debug, Serialize, Deserialize)]
pub struct Case {
    /// bodies of the mixins m0, m1 (may contain Content markers as `Include{m: 255}`) and functions f0, f1
    pub mixins: Vec<Vec<S>>,
    pub funcs: Vec<Vec<S>>,
    pub main: Vec<S>,
}

const VARS: &[&str] = &["a", "b", "c", "i"];
const CONTENT: u8 = 255;

struct Printer {
    serial: u32,
    wid: u32,
}

impl Printer {
    fn body(&mut self, v: &[S], ind: usize) -> String {
        v.iter().map(|s| self.stmt(s, ind)).collect::<Vec<_>>().join("")
    }
    fn stmt(&mut self, s: &S, ind: usize) -> String {
        let pad = "  ".repeat(ind);
        match s {
            S::Set { v, global, default, null } => {
                self.serial += 1;
                let val = if *null { "null".to_string() } else { self.serial.to_string() };
                format!("{pad}${}: {val}{}{};\n", VARS[*v as usize], if *global { " !global" } else { "" }, if *default { " !default" } else { "" })
            }
            S::Read { v } => {
                self.serial += 1;
                let n = VARS[*v as usize];
                format!("{pad}@if variable-exists({n}) {{ $ignore: obs(\"r{}=#{{inspect(${n})}}\"); }} @else {{ $ignore: obs(\"r{}=undef\"); }}\n", self.serial, self.serial)
            }
            S::Rule(b) => format!("{pad}x {{\n{}{pad}}}\n", self.body(b, ind + 1)),
            S::Media(b) => format!("{pad}@media screen {{\n{}{pad}}}\n", self.body(b, ind + 1)),
            S::If { cond, then, els } => {
                let t = self.body(then, ind + 1);
                let e = self.body(els, ind + 1);
                format!("{pad}@if {cond} {{\n{t}{pad}}} @else {{\n{e}{pad}}}\n")
            }
            S::Each { lv, n, body } => {
                let list = (1..=*n).map(|k| (100 + k as u32).to_string()).collect::<Vec<_>>().join(", ");
                let list = if *n == 0 { "()".to_string() } else if *n == 1 { format!("({list},)") } else { list };
                format!("{pad}@each ${} in {list} {{\n{}{pad}}}\n", VARS[*lv as usize], self.body(body, ind + 1))
            }
            S::For { lv, n, body } => format!("{pad}@for ${} from 101 to {} {{\n{}{pad}}}\n", VARS[*lv as usize], 101 + *n as u32, self.body(body, ind + 1)),
            S::While { n, body } => {
                self.wid += 1;
                let w = self.wid;
                format!("{pad}$w{w}: {n} !global;\n{pad}@while $w{w} > 0 {{\n{pad}  $w{w}: $w{w} - 1 !global;\n{}{pad}}}\n", self.body(body, ind + 1))
            }
            S::Include { m, content } => {
                if *m == CONTENT {
                    return format!("{pad}@content;\n");
                }
                match content {
                    Some(b) => format!("{pad}@include m{m} {{\n{}{pad}}}\n", self.body(b, ind + 1)),
                    None => format!("{pad}@include m{m};\n"),
                }
            }
            S::Call { f } => format!("{pad}$ignore: f{f}();\n"),
        }
    }
}

pub fn source(c: &Case) -> String {
    let mut p = Printer { serial: 0, wid: 0 };
    let mut s = String::from("$acc: ();\n@function obs($v) { $acc: append($acc, $v, comma) !global; @return 0; }\n");
    for (k, m) in c.mixins.iter().enumerate() {
        s.push_str(&format!("@mixin m{k} {{\n{}}}\n", p.body(m, 1)));
    }
    for (k, f) in c.funcs.iter().enumerate() {
        s.push_str(&format!("@function f{k}() {{\n{}  @return 0;\n}}\n", p.body(f, 1)));
    }
    s.push_str(&p.body(&c.main, 0));
    s.push_str("zzq { p1: inspect($acc); }\n");
    s
}

// ---------------- reference interpreter ----------------

#[derive(Clone, Copy, PartialEq, Debug)]
enum Kind {
    Global,
    Local,
    Flow,
}
struct Frame {
    kind: Kind,
    parent: Option<usize>,
    vars: HashMap<u8, Option<u32>>, // None = null
}
struct Interp<'a> {
    c: &'a Case,
    frames: Vec<Frame>,
    out: Vec<String>,
    /// serial numbers are assigned in *print* order; statements in mixin/function bodies get theirs at definition
    serials: HashMap<*const S, u32>,
    steps: u32,
    /// the global counter of each @while statement
    wcount: HashMap<*const S, i64>,
}

fn number(c: &Case) -> HashMap<*const S, u32> {
    fn walk(v: &[S], n: &mut u32, m: &mut HashMap<*const S, u32>) {
        for s in v {
            match s {
                S::Set { .. } | S::Read { .. } => {
                    *n += 1;
                    m.insert(s as *const S, *n);
                }
                S::Rule(b) | S::Media(b) | S::Each { body: b, .. } | S::For { body: b, .. } | S::While { body: b, .. } => walk(b, n, m),
                S::If { then, els, .. } => {
                    walk(then, n, m);
                    walk(els, n, m);
                }
                S::Include { content: Some(b), .. } => walk(b, n, m),
                _ => {}
            }
        }
    }
    let mut n = 0;
    let mut m = HashMap::new();
    for b in &c.mixins {
        walk(b, &mut n, &mut m);
    }
    for b in &c.funcs {
        walk(b, &mut n, &mut m);
    }
    walk(&c.main, &mut n, &mut m);
    m
}

impl<'a> Interp<'a> {
    fn lookup(&self, mut f: usize, v: u8) -> Option<(usize, Option<u32>)> {
        loop {
            if let Some(x) = self.frames[f].vars.get(&v) {
                return Some((f, *x));
            }
            f = self.frames[f].parent?;
        }
    }
    fn semi_global(&self, mut f: usize) -> bool {
        loop {
            match self.frames[f].kind {
                Kind::Global => return true,
                Kind::Local => return false,
                Kind::Flow => f = self.frames[f].parent.unwrap(),
            }
        }
    }
    fn push(&mut self, kind: Kind, parent: usize) -> usize {
        self.frames.push(Frame { kind, parent: Some(parent), vars: HashMap::new() });
        self.frames.len() - 1
    }
    fn run(&mut self, body: &'a [S], cur: usize, content: Option<(&'a [S], usize)>) {
        for s in body {
            self.steps += 1;
            if self.steps > 20_000 {
                return;
            }
            match s {
                S::Set { v, global, default, null } => {
                    let val = if *null { None } else { Some(self.serials[&(s as *const S)]) };
                    if *default {
                        // (as in dart-sass, also `!global !default` looks the variable up from the current scope)
                        let existing = self.lookup(cur, *v).map(|x| x.1);
                        if matches!(existing, Some(Some(_))) {
                            continue;
                        }
                    }
                    if *global {
                        self.frames[0].vars.insert(*v, val);
                        continue;
                    }
                    let target = match self.lookup(cur, *v) {
                        None => cur,
                        Some((0, _)) if cur != 0 && !self.semi_global(cur) => cur,
                        Some((f, _)) => f,
                    };
                    self.frames[target].vars.insert(*v, val);
                }
                S::Read { v } => {
                    let k = self.serials[&(s as *const S)];
                    let t = match self.lookup(cur, *v) {
                        None => "undef".to_string(),
                        Some((_, None)) => "null".to_string(),
                        Some((_, Some(x))) => x.to_string(),
                    };
                    self.out.push(format!("\"r{k}={t}\""));
                }
                S::Rule(b) | S::Media(b) => {
                    let f = self.push(Kind::Local, cur);
                    self.run(b, f, content);
                }
                S::If { cond, then, els } => {
                    let f = self.push(Kind::Flow, cur);
                    self.run(if *cond { then } else { els }, f, content);
                }
                // a loop is one scope for all of its iterations (as in dart-sass): a variable declared in one
                // iteration is still there in the next one and gone after the loop
                S::Each { lv, n, body } | S::For { lv, n, body } => {
                    let f = self.push(Kind::Flow, cur);
                    for k in 1..=*n {
                        self.frames[f].vars.insert(*lv, Some(100 + k as u32));
                        self.run(body, f, content);
                    }
                }
                S::While { n, body } => {
                    // as rendered: the counter is one global per @while statement, so a re-entrant run of the same
                    // statement (a mixin including itself through its content block) shares and resets it
                    let f = self.push(Kind::Flow, cur);
                    let key = s as *const S;
                    self.wcount.insert(key, *n as i64);
                    while self.wcount.get(&key).copied().unwrap_or(0) > 0 {
                        *self.wcount.get_mut(&key).unwrap() -= 1;
                        self.run(body, f, content);
                        if self.steps > 20_000 {
                            return;
                        }
                    }
                }
                S::Include { m, content: blk } => {
                    if *m == CONTENT {
                        if let Some((b, site)) = content {
                            let f = self.push(Kind::Local, site);
                            // a content block sees the content of its own include site, not of the mixin running it
                            self.run(b, f, None);
                        }
                        continue;
                    }
                    let body: &'a [S] = &self.c.mixins[*m as usize];
                    let f = self.push(Kind::Local, 0);
                    let blk: Option<(&'a [S], usize)> = blk.as_ref().map(|b| (b.as_slice(), cur));
                    self.run(body, f, blk);
                }
                S::Call { f } => {
                    let body: &'a [S] = &self.c.funcs[*f as usize];
                    let fr = self.push(Kind::Local, 0);
                    self.run(body, fr, None);
                }
            }
        }
    }
}

pub fn model(c: &Case) -> Vec<String> {
    let mut it = Interp { c, frames: vec![Frame { kind: Kind::Global, parent: None, vars: HashMap::new() }], out: vec![], serials: number(c), steps: 0, wcount: HashMap::new() };
    let main: &[S] = &c.main;
    it.run(main, 0, None);
    it.out
}

// ---------------- generator ----------------

fn leaf() -> impl Strategy<Value = S> {
    prop_oneof![
        5 => (0u8..3, prop_oneof![6 => Just((false, false)), 2 => Just((true, false)), 2 => Just((false, true)), 1 => Just((true, true))], proptest::bool::weighted(0.08)).prop_map(|(v, (global, default), null)| S::Set { v, global, default, null }),
        5 => (0u8..3).prop_map(|v| S::Read { v }),
    ]
}

fn stmts(in_callable: bool, depth: u32) -> BoxedStrategy<Vec<S>> {
    let st = leaf().prop_recursive(depth, 16, 4, move |inner| {
        let body = proptest::collection::vec(inner.clone(), 0..4);
        prop_oneof![
            3 => body.clone().prop_map(S::Rule),
            1 => body.clone().prop_map(S::Media),
            3 => (any::<bool>(), body.clone(), body.clone()).prop_map(|(cond, then, els)| S::If { cond, then, els }),
            2 => (0u8..4, 0u8..3, body.clone()).prop_map(|(lv, n, body)| S::Each { lv, n, body }),
            2 => (0u8..4, 0u8..3, body.clone()).prop_map(|(lv, n, body)| S::For { lv, n, body }),
            1 => (0u8..3, body.clone()).prop_map(|(n, body)| S::While { n, body }),
            2 => if in_callable { Just(S::Include { m: CONTENT, content: None }).boxed() } else { (0u8..2, proptest::option::of(body.clone())).prop_map(|(m, content)| S::Include { m, content }).boxed() },
            1 => if in_callable { leaf().boxed() } else { (0u8..2).prop_map(|f| S::Call { f }).boxed() },
        ]
    });
    proptest::collection::vec(st, 1..6).boxed()
}

fn strip_content(v: Vec<S>) -> Vec<S> {
    // functions may not contain @content, at-rules or style rules: keep assignments, reads and flow control
    v.into_iter()
        .filter_map(|s| match s {
            S::Include { .. } | S::Rule(_) | S::Media(_) => None,
            S::If { cond, then, els } => Some(S::If { cond, then: strip_content(then), els: strip_content(els) }),
            S::Each { lv, n, body } => Some(S::Each { lv, n, body: strip_content(body) }),
            S::For { lv, n, body } => Some(S::For { lv, n, body: strip_content(body) }),
            S::While { n, body } => Some(S::While { n, body: strip_content(body) }),
            s => Some(s),
        })
        .collect()
}

fn cases(depth: u32) -> impl Strategy<Value = Case> {
    (stmts(true, 2), stmts(true, 2), stmts(true, 2), stmts(true, 2), stmts(false, depth)).prop_map(|(m0, m1, f0, f1, main)| Case { mixins: vec![m0, m1], funcs: vec![strip_content(f0), strip_content(f1)], main })
}

fn uses_callables(v: &[S]) -> bool {
    v.iter().any(|s| match s {
        S::Include { .. } | S::Call { .. } => true,
        S::Rule(b) | S::Media(b) | S::Each { body: b, .. } | S::For { body: b, .. } | S::While { body: b, .. } => uses_callables(b),
        S::If { then, els, .. } => uses_callables(then) || uses_callables(els),
        _ => false,
    })
}

impl Prop for C16 {
    type Case = Case;
    const ID: &'static str = "C16";
    fn new() -> Self {
        C16
    }
    fn rule(&self) -> String {
        "programs over $a $b $c: assignments (plain, !global, !default, both; 8% assign null) and reads at every level of nests of style rules, @media, @if/@else, @each, @for (loop variables named a, b, c or i), @while, mixin bodies (with @content), content blocks and function bodies, up to depth 4; two mixins and two functions are defined at the top level and included/called from anywhere. Every read records `variable-exists` and the value through a global accumulator. Oracle: a reference interpreter of Sass scoping (innermost declaring local scope wins; a global is shadowed in a local scope; top-level flow control is semi-global; !global writes the root; !default assigns iff undefined or null; a loop is one scope holding its loop variable; callables see their definition site, content blocks their include site). Non-trivial: a program with an assignment inside a nested block and a read after it, or a flagged assignment; distinct by program".into()
    }
    fn phases(&self, tier: Tier) -> Vec<Phase<Case>> {
        vec![Phase::random("small", cases(2), tier.pick(20_000, 500_000)), Phase::random("deep", cases(4), tier.pick(20_000, 500_000))]
    }
    fn render(&self, c: &Case) -> serde_json::Value {
        serde_json::json!({"src": source(c), "expected": model(c)})
    }
    fn check(&self, c: &Case) -> Verdict {
        let src = source(c);
        let want = model(c);
        let r = rs::compile(src.as_bytes(), &Opts::default());
        let out = match r {
            Res::Ok(o) => String::from_utf8_lossy(&o).to_string(),
            Res::Panic(m) => return Verdict::fail(format!("panic: {m}\n{src}")),
            Res::Err { text, .. } => return Verdict::fail(format!("a valid program fails: {}\n{src}", text.lines().next().unwrap_or(""))),
        };
        let p1 = out.lines().find_map(|l| l.trim().strip_prefix("p1: ")).map(|s| s.trim_end_matches(';').to_string()).unwrap_or_default();
        let expect = match want.len() {
            0 => "()".to_string(),
            1 => format!("({},)", want[0]),
            _ => want.join(", "),
        };
        let nontrivial = want.len() >= 2;
        if p1 == expect {
            return Verdict::pass(nontrivial).class_if(uses_callables(&c.main), "uses-mixin-or-function");
        }
        let got: Vec<&str> = p1.split(", ").collect();
        let k = got.iter().zip(want.iter()).position(|(g, w)| g.trim_matches(|c| c == '(' || c == ')' || c == ',') != w).unwrap_or(got.len().min(want.len()));
        Verdict::fail(format!("read {k}: rsass recorded {:?}, Sass scoping gives {:?}\nall recorded: {p1}\nall expected: {expect}\n{src}", got.get(k), want.get(k)))
    }
}
