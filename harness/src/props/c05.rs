//! C05 Compilation is deterministic and isolated.
//!
//! A history of compilations is run in a fresh process (sequentially or on
//! several threads); every result must equal the baseline of that input, which
//! comes from a fresh process that does exactly one compilation.

use crate::corpus::corpus_live_str;
use crate::engine::{Phase, Prop, Tier, Verdict};
use crate::gen::prog::{self, Cfg};
use crate::rs::{self, Opts, Res, St};
use proptest::prelude::*;
use proptest::strategy::ValueTree;
use serde::{Deserialize, Serialize};
use std::collections::HashMap;
use std::io::{Read, Write};
use std::process::{Command, Stdio};
use std::sync::{Arc, Barrier, Mutex, OnceLock};

pub struct C05;

#[derive(Clone, Debug, Serialize, Deserialize, PartialEq, Eq, Hash)]
pub struct Item {
    pub text: String,
    pub css: bool,
    pub compressed: bool,
}

#[derive(Clone, Debug, Serialize, Deserialize)]
pub struct Case {
    pub items: Vec<Item>,
    /// 1 = sequential
    pub threads: usize,
}

/// programs that try to change process-wide state
const POKE: &[&str] = &[
    "@use \"sass:math\" with ($pi: 3);\na { b: math.$pi }",
    "@use \"sass:math\";\nmath.$pi: 3;\na { b: math.$pi }",
    "@use \"sass:math\" as m;\nm.$pi: 3;\na { b: m.$pi }",
    "@use \"sass:math\" as m;\nm.$e: 1 !global;\na { b: m.$e }",
    "@use \"sass:math\" as *;\n$pi: 3;\na { b: $pi }",
    "@use \"sass:math\" as *;\n$pi: 3 !global;\na { b: $pi }",
    "@use \"sass:math\" as *;\n$pi: 4 !default;\na { b: $pi }",
    "@use \"sass:math\" as *;\na { $pi: 5; b: $pi }",
    "@use \"sass:math\" as m;\n@function bump() { m.$pi: 9; @return 1; }\na { b: bump() m.$pi }",
    "@use \"sass:math\" as m;\n@mixin set { m.$epsilon: 1; }\na { @include set; b: m.$epsilon }",
    "@use \"sass:color\" as c;\nc.$x: 1;\na { b: c }",
    "@use \"sass:list\" as l;\nl.$sep: comma;\na { b: l }",
    "@use \"sass:map\" as mp;\nmp.$k: v;\na { b: mp }",
    "@use \"sass:string\" as s;\ns.$q: 1;\na { b: s }",
    "@use \"sass:meta\" as me;\nme.$v: 1;\na { b: me }",
    "@use \"sass:selector\" as se;\nse.$v: 1;\na { b: se }",
    "@forward \"sass:map\";\n@forward \"sass:math\" as m-*;\na { b: c }",
    "@forward \"sass:math\" show $pi;\na { b: c }",
    "@function red($c) { @return 1; }\na { b: red(blue) }",
    "@function percentage($x) { @return x; }\na { b: percentage(0.5) }",
    "@function map-get($m, $k) { @return hijacked; }\na { b: map-get((a: 1), a) }",
    "@function if($a, $b, $c) { @return hijacked; }\na { b: if(true, 1, 2) }",
    "@function nth($l, $n) { @return hijacked; }\na { b: nth(1 2, 1) }",
    "@mixin load-css($u) { q: r; }\na { @include load-css(\"x\"); }",
    "@use \"sass:math\";\n@function div($a, $b) { @return 7; }\na { b: div(1, 2) math.div(1, 2) }",
    "$pi: 3 !global;\n$e: 1;\n@use \"sass:math\";\na { b: $pi math.$pi }",
    "a { b: 10px/2px; c: adjust-color(red, $lightness: 10%); d: map-get((a: 1), a); e: 6 / 3 }",
    "$x: 6 / 3;\na { b: $x; c: (6 / 3); d: str-slice(\"abc\", 2) }",
    "@use \"sass:meta\";\na { @include meta.load-css(\"nothing\"); }",
    "@use \"sass:meta\";\n@use \"sass:math\" as m;\na { b: meta.call(meta.get-function(\"div\", $module: \"m\"), 1, 2) }",
    "@use \"sass:map\";\n@use \"sass:meta\";\n$v: map.merge(meta.module-variables(\"math\"), (pi: 3));\na { b: map.get($v, pi) }",
    "@use \"sass:math\" as m;\n@each $i in 1 2 { m.$pi: $i; }\na { b: m.$pi }",
    "@use \"sass:math\" as m;\n@if true { m.$pi: 2; }\na { b: m.$pi }",
    "@use \"sass:math\";\n@use \"sass:math\" as m2;\nm2.$max-safe-integer: 1;\na { b: math.$max-safe-integer }",
    "@error \"stop\";",
    "a { b: $undefined }",
    "a { b: nth(1 2, 5) }",
    "@import \"nothing\";",
    "a { @extend .missing; }",
];

/// programs that read process-wide state
const READ: &[&str] = &[
    "@use \"sass:math\";\na { b: math.$pi math.$e math.$epsilon math.$max-safe-integer math.$min-safe-integer }",
    "@use \"sass:math\" as m;\na { b: m.$pi m.$e m.$epsilon }",
    "@use \"sass:math\" as *;\na { b: $pi $e $epsilon $max-safe-integer }",
    "@use \"sass:meta\";\n@use \"sass:math\";\na { b: meta.inspect(meta.module-variables(\"math\")) }",
    "@use \"sass:meta\";\n@use \"sass:map\";\n@use \"sass:math\";\n@use \"sass:string\";\n@use \"sass:list\";\n@use \"sass:color\";\n@use \"sass:selector\";\na { m: map.keys(meta.module-functions(\"math\")); s: map.keys(meta.module-functions(\"string\")); l: map.keys(meta.module-functions(\"list\")); p: map.keys(meta.module-functions(\"map\")); c: map.keys(meta.module-functions(\"color\")); e: map.keys(meta.module-functions(\"selector\")); t: map.keys(meta.module-functions(\"meta\")); v: meta.inspect(meta.module-variables(\"color\")) meta.inspect(meta.module-variables(\"list\")) }",
    "@use \"sass:math\";\na { b: math.div(1, 3) math.sqrt(2) math.pow(2, 10) math.percentage(0.25) math.round(2.5) math.max(1px, 2px) math.clamp(1, 5, 3) math.sin(math.$pi) math.log(math.$e) math.hypot(3, 4) math.unit(1px) }",
    "a { b: red(#123456) percentage(0.5) nth(1 2 3, 2) map-get((a: 1), a) if(true, 1, 2) str-length(\"abc\") quote(a) unquote(\"b\") length(1 2) type-of(1) unit(1px) lighten(red, 10%) mix(red, blue) join(1 2, 3) append(1, 2) index(1 2, 2) zip(1 2, 3 4) to-upper-case(\"a\") abs(-1) ceil(1.2) min(1, 2) }",
    "a { b: function-exists(red) function-exists(percentage) function-exists(map-get) mixin-exists(load-css) global-variable-exists(pi) variable-exists(e) }",
    "@use \"sass:meta\";\na { b: meta.inspect(get-function(red)) meta.inspect(get-function(percentage)) meta.inspect(get-function(map-get)) meta.function-exists(div, math) }",
    "@use \"sass:color\";\na { b: color.adjust(red, $lightness: 10%) color.scale(red, $lightness: 10%) color.change(red, $alpha: 0.5) color.hwb(0 0% 0%) color.whiteness(red) color.invert(red) color.complement(red) }",
    "@use \"sass:string\";\n@use \"sass:list\";\n@use \"sass:map\";\n@use \"sass:selector\";\na { b: string.length(\"é\") string.slice(\"abcd\", 2, 3) list.nth(1 2, -1) list.separator((1, 2)) map.get((a: (b: 1)), a, b) selector.nest(\"a\", \"b\") selector.unify(\"a\", \".b\") string.to-upper-case(\"x\") list.slash(1, 2) }",
    "a { b: 10px/2px; c: (6 / 3); d: 1 + 2 * 3; e: 0.1 + 0.2; f: 1/3; g: #abc; h: \"q\" + r; i: 1 == 1px }",
    "@function f($x) { @return $x * 2; }\n@mixin m { c: d; }\na { b: f(2); @include m; }",
    "@use \"sass:math\";\n@function div($a, $b) { @return math.div($a, $b) + 1; }\na { b: div(1, 2) }",
];

pub fn run_item(it: &Item) -> String {
    let o = Opts { css: it.css, style: if it.compressed { St::Compressed } else { St::Expanded }, precision: 10 };
    match rs::compile(it.text.as_bytes(), &o) {
        Res::Ok(b) => format!("ok:{}", String::from_utf8_lossy(&b)),
        Res::Err { text, .. } => format!("err:{text}"),
        Res::Panic(m) => format!("panic:{m}"),
    }
}

/// `vcheck --history`: read a Case as JSON on stdin, run it, print the results as a JSON list
pub fn main_history() -> i32 {
    let mut s = String::new();
    if std::io::stdin().read_to_string(&mut s).is_err() {
        return 2;
    }
    let Ok(case) = serde_json::from_str::<Case>(&s) else { return 2 };
    let results = run_history(&case);
    println!("{}", serde_json::to_string(&results).unwrap());
    0
}

fn run_history(case: &Case) -> Vec<String> {
    let n = case.items.len();
    if case.threads <= 1 {
        return case.items.iter().map(run_item).collect();
    }
    let results = Arc::new(Mutex::new(vec![String::new(); n]));
    // two rounds with different neighbours: round-robin, then reversed order
    let mut out = vec![];
    for round in 0..2 {
        let barrier = Arc::new(Barrier::new(case.threads));
        let items = Arc::new(case.items.clone());
        let hs: Vec<_> = (0..case.threads)
            .map(|t| {
                let (items, results, barrier, threads) = (items.clone(), results.clone(), barrier.clone(), case.threads);
                std::thread::Builder::new()
                    .stack_size(16 << 20)
                    .spawn(move || {
                        barrier.wait();
                        let idx: Vec<usize> = if round == 0 { (0..items.len()).filter(|i| i % threads == t).collect() } else { (0..items.len()).rev().filter(|i| (i + 1) % threads == t).collect() };
                        for i in idx {
                            let r = run_item(&items[i]);
                            results.lock().unwrap()[i] = r;
                        }
                    })
                    .expect("spawn")
            })
            .collect();
        for h in hs {
            let _ = h.join();
        }
        out.push(results.lock().unwrap().clone());
    }
    // report the first round, or the entry of the second round where they differ (so any deviation is seen)
    let (a, b) = (&out[0], &out[1]);
    a.iter().zip(b.iter()).map(|(x, y)| if x == y { x.clone() } else { format!("{x}\u{0}ROUND2\u{0}{y}") }).collect()
}

fn spawn_history(case: &Case) -> Result<Vec<String>, String> {
    let exe = std::env::current_exe().map_err(|e| e.to_string())?;
    let empty = crate::engine::worker::scratch_dir().join("empty");
    let _ = std::fs::create_dir_all(&empty);
    let mut child = Command::new(exe).arg("--history").current_dir(&empty).stdin(Stdio::piped()).stdout(Stdio::piped()).stderr(Stdio::null()).spawn().map_err(|e| e.to_string())?;
    let input = serde_json::to_string(case).map_err(|e| e.to_string())?;
    child.stdin.take().unwrap().write_all(input.as_bytes()).map_err(|e| e.to_string())?;
    let out = child.wait_with_output().map_err(|e| e.to_string())?;
    if !out.status.success() {
        return Err(format!("history process ended with {}", out.status));
    }
    serde_json::from_slice::<Vec<String>>(&out.stdout).map_err(|e| format!("bad history output: {e}"))
}

fn baseline(it: &Item) -> Result<String, String> {
    static CACHE: OnceLock<Mutex<HashMap<Item, String>>> = OnceLock::new();
    let cache = CACHE.get_or_init(|| Mutex::new(HashMap::new()));
    if let Some(v) = cache.lock().unwrap().get(it) {
        return Ok(v.clone());
    }
    // a fresh process that does exactly this one compilation
    let r = spawn_history(&Case { items: vec![it.clone()], threads: 1 })?;
    let v = r.into_iter().next().ok_or("empty baseline")?;
    cache.lock().unwrap().insert(it.clone(), v.clone());
    Ok(v)
}

fn pool(tier: Tier) -> &'static Vec<Item> {
    static P: OnceLock<Vec<Item>> = OnceLock::new();
    P.get_or_init(|| {
        let mut v: Vec<Item> = vec![];
        for t in POKE.iter().chain(READ.iter()) {
            v.push(Item { text: t.to_string(), css: false, compressed: false });
        }
        for t in READ {
            v.push(Item { text: t.to_string(), css: false, compressed: true });
        }
        let n = tier.pick(150, 2000);
        let live: Vec<&String> = corpus_live_str().iter().filter(|t| !t.contains("random(") && !t.contains("unique-id") && !t.contains("unique_id") && t.len() < 4000).collect();
        let step = (live.len() / n.max(1)).max(1);
        for (i, t) in live.iter().step_by(step).enumerate() {
            v.push(Item { text: t.to_string(), css: i % 7 == 0, compressed: i % 2 == 0 });
        }
        // generated programs, a fixed sample
        let mut runner = proptest::test_runner::TestRunner::deterministic();
        let st = prog::sheet(Cfg { wild: false, safe: true, ..Cfg::default() });
        for i in 0..tier.pick(100, 1500) {
            if let Ok(t) = st.new_tree(&mut runner) {
                v.push(Item { text: t.current(), css: false, compressed: i % 2 == 1 });
            }
        }
        v
    })
}

impl Prop for C05 {
    type Case = Case;
    const ID: &'static str = "C05";
    const TIMEOUT_MS: u64 = 60_000;
    fn new() -> Self {
        C05
    }
    fn rule(&self) -> String {
        "histories of 1..50 compilations drawn from a pool: 39 state-poking programs (configuring/assigning built-in modules under default, aliased and `as *` namespaces, from functions, mixins and control flow; @forward of built-ins; user functions/mixins named like built-ins; deprecation-warning triggers; failing programs), 14 state-reading programs (every built-in module variable, the function tables, calls through every module, global function lookup), a sample of the non-ignored spec inputs and of generated programs; inputs calling random()/unique-id() are excluded. Each history runs in a fresh process, sequentially or on 2..16 barrier-released threads (two rounds with different neighbours); every result (bytes or error text) must equal the input's baseline from a fresh process doing only that compilation. Non-trivial: a history in which a poking program precedes (or runs beside) a reading one, or a multi-thread history; distinct by history".into()
    }
    fn assumptions(&self) -> Vec<String> {
        vec!["interleavings are whatever the OS produces for up to 16 threads; no yield hooks are placed in rsass (the cross-thread state is a few LazyLock statics, a mutex and Once flags)".into()]
    }
    fn phases(&self, tier: Tier) -> Vec<Phase<Case>> {
        let p = pool(tier);
        let n_special = POKE.len() + 2 * READ.len();
        let item = prop_oneof![3 => (0..n_special).prop_map(move |i| p[i].clone()), 2 => (0..p.len()).prop_map(move |i| p[i].clone())];
        let seq = proptest::collection::vec(item.clone(), 1..50).prop_map(|items| Case { items, threads: 1 });
        let thr = (proptest::collection::vec(item, 2..50), 2usize..=16).prop_map(|(items, threads)| Case { items, threads });
        vec![Phase::random("sequential", seq, tier.pick(300, 20_000)), Phase::random("threaded", thr, tier.pick(200, 5_000))]
    }
    fn render(&self, c: &Case) -> serde_json::Value {
        serde_json::json!({"threads": c.threads, "items": c.items.iter().map(|i| i.text.chars().take(60).collect::<String>()).collect::<Vec<_>>()})
    }
    fn check(&self, c: &Case) -> Verdict {
        let mut base = vec![];
        for it in &c.items {
            match baseline(it) {
                Ok(b) => base.push(b),
                Err(e) => return Verdict::discard(format!("worker: baseline process failed: {e}")),
            }
        }
        let got = match spawn_history(c) {
            Ok(g) => g,
            Err(e) => return Verdict::fail(format!("the history process failed ({e}) although every input compiles alone")),
        };
        if got.len() != base.len() {
            return Verdict::fail("history returned a different number of results".to_string());
        }
        for (i, (g, b)) in got.iter().zip(base.iter()).enumerate() {
            if g != b {
                let short = |s: &str| s.replace('\u{0}', " | ").chars().take(300).collect::<String>();
                return Verdict::fail(format!("compilation {i} of the history ({} threads) differs from its fresh-process baseline.\n input: {:?}\n got: {:?}\n baseline: {:?}", c.threads, c.items[i].text.chars().take(200).collect::<String>(), short(g), short(b)));
            }
        }
        let is_poke = |it: &Item| POKE.contains(&it.text.as_str());
        let is_read = |it: &Item| READ.contains(&it.text.as_str());
        let poke_then_read = c.items.iter().position(is_poke).is_some_and(|p| c.items.iter().skip(p + 1).any(is_read));
        Verdict::pass(poke_then_read || c.threads > 1).class_if(poke_then_read, "poke-before-read").class(if c.threads > 1 { "threaded" } else { "sequential" })
    }
}
