use crate::engine::{main_check, main_replay, main_worker, Prop, Tier};

pub enum Mode {
    Check(Tier),
    Replay(String),
    Worker,
}

fn go<P: Prop>(m: Mode) -> i32 {
    match m {
        Mode::Check(t) => main_check::<P>(t),
        Mode::Replay(p) => main_replay::<P>(&p),
        Mode::Worker => main_worker::<P>(),
    }
}

macro_rules! registry {
    ($($m:ident :: $t:ident),* $(,)?) => {
        $(pub mod $m;)*
        pub fn dispatch(id: &str, m: Mode) -> i32 {
            $(if id == <$m::$t as Prop>::ID { return go::<$m::$t>(m); })*
            println!("unknown property {id}");
            2
        }
    };
}

registry! {
    c01::C01,
    c02::C02,
    c03::C03,
    c04::C04,
    c05::C05,
    c06::C06,
    c07::C07,
    c08::C08,
    c09::C09,
    c10::C10,
    c11::C11,
    c12::C12,
    c13::C13,
    c14::C14,
    c15::C15,
    c16::C16,
    c17::C17,
    c18::C18,
    c19::C19,
    c20::C20,
    c21::C21,
    c22::C22,
    c23::C23,
    c24::C24,
    c25::C25,
    c26::C26,
    c27::C27,
    c28::C28,
    c29::C29,
    c30::C30,
    c31::C31,
    c32::C32,
    c33::C33,
    c34::C34,
    c35::C35,
    c36::C36,
    c37::C37,
    c38::C38,
    c39::C39,
    c40::C40,
}
