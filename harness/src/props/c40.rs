//! C40 The command-line tool mirrors the library.

use crate::engine::{Phase, Prop, Tier, Verdict};
use crate::gen::one_of;
use crate::gen::prog::{self, Cfg};
use crate::rs::{self, Res};
use proptest::prelude::*;
use rsass::input::FsContext;
use rsass::output::{Format, Style};
use serde::{Deserialize, Serialize};
use std::path::{Path, PathBuf};
use std::process::Command;
use std::sync::atomic::{AtomicU64, Ordering};

pub struct C40;

#[derive(Clone, Debug, Serialize, Deserialize)]
pub enum Body {
    /// a stylesheet that loads nothing
    Plain(String),
    /// fails to compile
    Failing(String),
    /// loads `dep` (0 @use, 1 @import, 2 @forward, 3 meta.load-css) and then has some CSS of its own
    Loads(u8),
}

#[derive(Clone, Debug, Serialize, Deserialize)]
pub struct Input {
    pub body: Body,
    /// directory of the file: 0 = `a/`, 1 = `b/`
    pub dir: u8,
}

#[derive(Clone, Debug, Serialize, Deserialize)]
pub struct Case {
    pub inputs: Vec<Input>,
    pub compressed: bool,
    /// None = not given (the tool's default is 5)
    pub precision: Option<usize>,
    /// `-I lp` given?
    pub load_path: bool,
    /// `_dep.scss` exists in a/, in b/, in lp/
    pub dep_in: [bool; 3],
    /// spell options the long or the short way
    pub short_opts: bool,
}

fn cli() -> PathBuf {
    PathBuf::from(format!("{}/harness/target/cli/release/rsass", crate::engine::verif_root()))
}

fn scratch() -> PathBuf {
    static N: AtomicU64 = AtomicU64::new(0);
    let d = crate::engine::worker::scratch_dir().join(format!("c40-{}-{:?}", N.fetch_add(1, Ordering::Relaxed), std::thread::current().id()).replace(['(', ')'], ""));
    let _ = std::fs::create_dir_all(&d);
    d
}

fn body() -> BoxedStrategy<Body> {
    prop_oneof![
        4 => prog::sheet(Cfg { wild: false, safe: true, ..Cfg::default() }).prop_filter("deterministic", |t| !t.contains("unique-id") && !t.contains("random")).prop_map(Body::Plain),
        2 => one_of(&["@use \"sass:math\"; a { b: math.div(1, 3); c: math.div(200, 3); d: 0.123456789012 }\n", "a { b: 1.00000001; c: 0.5555555; d: rgba(1, 2, 3, 0.123456789) }\n", "", "/* only a comment */\n", "a { b: \"\u{e9}\" }\n", "a {\n  b: c;\n  d { e: f }\n}\n"]).prop_map(Body::Plain),
        2 => one_of(&["b { width: 1px + 2s }\n", "a { b: $undefined }\n", "a { b: c", "@error \"stop\";\n", "a { @include nope }\n", "@use \"nowhere\";\n", "a { b: fn( }\n"]).prop_map(Body::Failing),
        3 => (0u8..4).prop_map(Body::Loads),
    ]
    .boxed()
}

fn cases() -> impl Strategy<Value = Case> {
    (proptest::collection::vec((body(), 0u8..2).prop_map(|(body, dir)| Input { body, dir }), 1..=3), any::<bool>(), proptest::option::weighted(0.8, 0usize..=12), proptest::bool::weighted(0.7), any::<[bool; 3]>(), any::<bool>())
        .prop_map(|(inputs, compressed, precision, load_path, dep_in, short_opts)| Case { inputs, compressed, precision, load_path, dep_in, short_opts })
}

impl Case {
    fn text(&self, i: usize) -> String {
        match &self.inputs[i].body {
            Body::Plain(t) | Body::Failing(t) => t.clone(),
            Body::Loads(k) => {
                let load = match k {
                    0 => "@use \"dep\";\n",
                    1 => "@import \"dep\";\n",
                    2 => "@forward \"dep\";\n",
                    _ => "@use \"sass:meta\";\n@include meta.load-css(\"dep\");\n",
                };
                format!("{load}.own{i} {{ w: (1 / 3 * 1) }}\n")
            }
        }
    }
    /// write the layout; returns the input paths
    fn write(&self, root: &Path) -> Vec<PathBuf> {
        for (d, name) in ["a", "b", "lp"].iter().enumerate() {
            let dir = root.join(name);
            let _ = std::fs::create_dir_all(&dir);
            if self.dep_in[d] {
                let _ = std::fs::write(dir.join("_dep.scss"), format!(".dep_in_{name} {{ k: (2 / 3 * 1) }}\n"));
            }
        }
        let mut out = vec![];
        for (i, inp) in self.inputs.iter().enumerate() {
            let p = root.join(if inp.dir == 0 { "a" } else { "b" }).join(format!("in{i}.scss"));
            let _ = std::fs::write(&p, self.text(i));
            out.push(p);
        }
        out
    }
    fn format(&self) -> Format {
        Format { style: if self.compressed { Style::Compressed } else { Style::Expanded }, precision: self.precision.unwrap_or(5) }
    }
    /// what the model says about input i: Some(marker that must be in its output) for a load, Err for a must-fail
    fn dep_expectation(&self, i: usize) -> Option<Result<&'static str, ()>> {
        let inp = &self.inputs[i];
        if !matches!(inp.body, Body::Loads(_)) {
            return None;
        }
        let own = if inp.dir == 0 { 0 } else { 1 };
        Some(if self.dep_in[own] {
            Ok(if own == 0 { ".dep_in_a" } else { ".dep_in_b" })
        } else if self.load_path && self.dep_in[2] {
            Ok(".dep_in_lp")
        } else {
            Err(())
        })
    }
}

impl Prop for C40 {
    type Case = Case;
    const ID: &'static str = "C40";
    const TIMEOUT_MS: u64 = 60_000;
    fn new() -> Self {
        C40
    }
    fn rule(&self) -> String {
        "an invocation of the rsass binary built from /repo/rsass-cli with 1..3 input files in two directories; each file is a generated load-free stylesheet, a hand-written precision-sensitive or empty one, one of 7 failing stylesheets (evaluation error, parse error, @error, missing module), or a file that loads `dep` by @use/@import/@forward/meta.load-css, where `_dep.scss` (with different content) may exist beside the input, in the other input directory and in the -I directory; --style expanded|compressed (or -t), --precision 0..12 or absent, --load-path (or -I) given or not. Oracle: the library compiles each input through FsContext::for_path + push_path + with_format; if all are Ok the tool must exit 0 with stdout equal to the concatenation and nothing starting with `Error:` on stderr, otherwise it must exit non-zero with a line starting `Error:` on stderr; independently of the library, a loading input must show the dep beside it when that exists, else the one from the load path when given, else fail. Non-trivial: two or more inputs, or a load, or a failing input; distinct by case".into()
    }
    fn assumptions(&self) -> Vec<String> {
        vec!["what is written to stdout before a failing input is not specified by the property and not compared".into()]
    }
    fn prepare(&self, _tier: Tier) {}
    fn phases(&self, tier: Tier) -> Vec<Phase<Case>> {
        vec![Phase::random("invocations", cases(), tier.pick(4_000, 200_000))]
    }
    fn check(&self, c: &Case) -> Verdict {
        if !cli().exists() {
            return Verdict::discard("resource: rsass-cli binary missing (run through ./check C40)");
        }
        let root = scratch();
        let paths = c.write(&root);
        let fmt = c.format();
        let lp = root.join("lp");
        // the library's answer per input
        let mut lib: Vec<Res> = vec![];
        for p in &paths {
            let (p, lp, use_lp) = (p.clone(), lp.clone(), c.load_path);
            lib.push(rs::run(move || {
                let (mut ctx, src) = FsContext::for_path(&p)?;
                if use_lp {
                    ctx.push_path(&lp);
                }
                ctx.with_format(fmt).transform(src)
            }));
        }
        let mut cmd = Command::new(cli());
        if c.compressed || c.short_opts {
            cmd.arg(if c.short_opts { "-t" } else { "--style" }).arg(if c.compressed { "compressed" } else { "expanded" });
        }
        if let Some(p) = c.precision {
            cmd.arg("--precision").arg(p.to_string());
        }
        if c.load_path {
            cmd.arg(if c.short_opts { "-I" } else { "--load-path" }).arg(&lp);
        }
        cmd.args(&paths);
        let out = cmd.output();
        let _ = std::fs::remove_dir_all(&root);
        let out = match out {
            Ok(o) => o,
            Err(e) => return Verdict::discard(format!("resource: cannot run the tool: {e}")),
        };
        let stderr = String::from_utf8_lossy(&out.stderr).to_string();
        let has_error_line = stderr.lines().any(|l| l.starts_with("Error:"));
        let describe = || format!("inputs {:?}, compressed={}, precision={:?}, load_path={}, dep_in(a,b,lp)={:?}", (0..c.inputs.len()).map(|i| (c.inputs[i].dir, c.text(i))).collect::<Vec<_>>(), c.compressed, c.precision, c.load_path, c.dep_in);
        // model of load resolution, independent of the library
        for i in 0..c.inputs.len() {
            match (c.dep_expectation(i), &lib[i]) {
                (Some(Ok(marker)), Res::Ok(b)) => {
                    let t = String::from_utf8_lossy(b);
                    let others = [".dep_in_a", ".dep_in_b", ".dep_in_lp"].iter().filter(|m| **m != marker).any(|m| t.contains(m));
                    if !t.contains(marker) || others {
                        return Verdict::fail(format!("input {i} must load the dep marked {marker} but the library output is {t:?}; {}", describe()));
                    }
                }
                (Some(Ok(marker)), other) => return Verdict::fail(format!("input {i} must load the dep marked {marker} but the library gives {}; {}", other.brief(), describe())),
                (Some(Err(())), Res::Ok(b)) => return Verdict::fail(format!("input {i} has no dep to load but the library gives Ok({:?}); {}", String::from_utf8_lossy(b), describe())),
                _ => {}
            }
        }
        if lib.iter().any(|r| matches!(r, Res::Panic(_))) {
            // C01's business; the tool would abort as well
            return Verdict::pass(false).class("library-panic");
        }
        let all_ok = lib.iter().all(|r| matches!(r, Res::Ok(_)));
        let code = out.status.code();
        if all_ok {
            let want: Vec<u8> = lib.iter().flat_map(|r| if let Res::Ok(b) = r { b.clone() } else { vec![] }).collect();
            if code != Some(0) {
                return Verdict::fail(format!("every input compiles in the library but the tool exits with {code:?}, stderr {stderr:?}; {}", describe()));
            }
            if out.stdout != want {
                return Verdict::fail(format!("tool stdout {:?} differs from the library's concatenated output {:?}; {}", String::from_utf8_lossy(&out.stdout), String::from_utf8_lossy(&want), describe()));
            }
            if has_error_line {
                return Verdict::fail(format!("tool exits 0 but writes an Error: line to stderr: {stderr:?}; {}", describe()));
            }
        } else {
            if code == Some(0) || code.is_none() {
                return Verdict::fail(format!("input {:?} fails in the library but the tool exits with {code:?}; stderr {stderr:?}; {}", lib.iter().position(|r| !matches!(r, Res::Ok(_))), describe()));
            }
            if !has_error_line {
                return Verdict::fail(format!("the tool exits with {code:?} but stderr has no `Error:` line: {stderr:?}; {}", describe()));
            }
        }
        let loads = c.inputs.iter().any(|i| matches!(i.body, Body::Loads(_)));
        Verdict::pass(c.inputs.len() >= 2 || loads || !all_ok)
            .class(format!("{}-inputs", c.inputs.len()))
            .class_if(!all_ok, "some-input-fails")
            .class_if(!all_ok && matches!(lib.last(), Some(Res::Ok(_))), "failing-input-is-not-last")
            .class_if(loads, "loads")
            .class_if(c.precision.is_none(), "default-precision")
    }
}
