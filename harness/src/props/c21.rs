//! C21 Evaluated content is never silently dropped.

use crate::engine::{Phase, Prop, Tier, Verdict};
use crate::gen::one_of;
use crate::rs::{self, Opts, Res};
use proptest::prelude::*;
use serde::{Deserialize, Serialize};
use std::collections::BTreeMap;

pub struct C21;

#[derive(Clone, Debug, Serialize, Deserialize, PartialEq)]
pub enum Mk {
    /// `m<k>: v;`
    Decl,
    /// `@layer mark<k>;` (rsass accepts only at-rules it knows inside mixins and control flow)
    At,
    /// `/* M<k>m */`
    Comment,
}

#[derive(Clone, Debug, Serialize, Deserialize)]
pub enum S {
    Marker(Mk, u32),
    /// `@error "E<k>e"`; only the one selected by `Case::error_at` is written
    ErrorSlot(u32),
    Rule(String, Vec<S>),
    /// nested property block `name: { .. }`
    PropBlock(String, Vec<S>),
    Media(Vec<S>),
    Supports(Vec<S>),
    Unknown(Vec<S>),
    If(bool, Vec<S>, Vec<S>),
    Each(u8, Vec<S>),
    For(u8, Vec<S>),
    /// @include m<i> (mixin bodies are in Case::mixins)
    Include(usize),
    /// @include mc { body } (a mixin with @content between two markers)
    IncludeContent(Vec<S>),
    /// `r<k>: fn<i>();` a declaration calling a function (function bodies hold only an error slot)
    Call(usize, u32),
    /// load file i: 0 = @import, 1 = meta.load-css, 2 = `@import "f<i>", "f<3-i>"` (two targets in one rule)
    Load(u8, usize),
}

#[derive(Clone, Debug, Serialize, Deserialize)]
pub struct Case {
    pub top: Vec<S>,
    /// bodies of m0 (usable anywhere: no bare declarations) and m1 (inside rules)
    pub mixins: Vec<Vec<S>>,
    /// around @content in mixin mc
    pub mc_before: Vec<S>,
    pub mc_after: Vec<S>,
    /// error slots of the functions fn0, fn1
    pub fn_slots: Vec<u32>,
    /// where the slot sits in the function body: 0 plain, 1 in @if, 2 in @each, 3 in @for, 4 in @while, 5 in @else, 6 in nested loops
    #[serde(default)]
    pub fn_kinds: Vec<u8>,
    /// files f0 (loaded by @use at the top), f1.. (loaded by Load statements)
    pub files: Vec<Vec<S>>,
    /// `@use "f0"` present
    pub use_f0: bool,
    /// which error slot is written (index into the slots in document order), if any
    pub error_at: Option<usize>,
}

#[derive(Clone, Copy, PartialEq)]
enum Ctx {
    Top,
    Rule,
    Prop,
}

fn stmts(depth: u32, ctx: Ctx, allow_include: bool, allow_load: bool) -> BoxedStrategy<Vec<S>> {
    let mut opts: Vec<(u32, BoxedStrategy<S>)> = vec![(1, Just(S::ErrorSlot(0)).boxed())];
    match ctx {
        Ctx::Prop => {
            opts.push((6, Just(S::Marker(Mk::Decl, 0)).boxed()));
        }
        Ctx::Rule => {
            opts.push((5, Just(S::Marker(Mk::Decl, 0)).boxed()));
            opts.push((2, Just(S::Marker(Mk::At, 0)).boxed()));
            opts.push((2, Just(S::Marker(Mk::Comment, 0)).boxed()));
            opts.push((1, (0usize..2).prop_map(|f| S::Call(f, 0)).boxed()));
        }
        Ctx::Top => {
            opts.push((2, Just(S::Marker(Mk::At, 0)).boxed()));
            opts.push((2, Just(S::Marker(Mk::Comment, 0)).boxed()));
        }
    }
    if depth > 0 {
        let d = depth - 1;
        if ctx != Ctx::Prop {
            opts.push((4, (one_of(&[".a", "b", "&:hover", ".c, .d"]), stmts(d, Ctx::Rule, allow_include, allow_load)).prop_map(move |(s, b)| S::Rule(if ctx == Ctx::Top && s.starts_with('&') { "e".into() } else { s }, b)).boxed()));
            opts.push((1, stmts(d, ctx, allow_include, allow_load).prop_map(S::Media).boxed()));
            opts.push((1, stmts(d, ctx, allow_include, allow_load).prop_map(S::Supports).boxed()));
            opts.push((1, stmts(d, ctx, allow_include, allow_load).prop_map(S::Unknown).boxed()));
            if allow_include {
                opts.push((1, Just(S::Include(0)).boxed()));
                opts.push((1, stmts(d, ctx, false, false).prop_map(S::IncludeContent).boxed()));
            }
            if allow_load {
                opts.push((1, (0u8..3, 1usize..3).prop_map(|(k, f)| S::Load(k, f)).boxed()));
            }
        } else {
            // an at-rule inside a nested property block: Sass rejects it; dropping its content silently is the defect
            opts.push((1, proptest::collection::vec(Just(S::Marker(Mk::Decl, 0)), 1..2).prop_map(S::Media).boxed()));
        }
        if ctx == Ctx::Rule {
            opts.push((2, (one_of(&["font", "margin", "x"]), stmts(d, Ctx::Prop, false, false)).prop_map(|(n, b)| S::PropBlock(n, b)).boxed()));
            if allow_include {
                opts.push((1, Just(S::Include(1)).boxed()));
            }
        }
        if ctx == Ctx::Prop {
            opts.push((1, (one_of(&["sub", "y"]), stmts(d, Ctx::Prop, false, false)).prop_map(|(n, b)| S::PropBlock(n, b)).boxed()));
        }
        opts.push((2, (any::<bool>(), stmts(d, ctx, allow_include, allow_load), stmts(d, ctx, allow_include, allow_load)).prop_map(|(c, a, b)| S::If(c, a, b)).boxed()));
        opts.push((1, (0u8..3, stmts(d, ctx, allow_include, allow_load)).prop_map(|(n, b)| S::Each(n, b)).boxed()));
        opts.push((1, (0u8..3, stmts(d, ctx, allow_include, allow_load)).prop_map(|(n, b)| S::For(n, b)).boxed()));
    }
    proptest::collection::vec(proptest::strategy::Union::new_weighted(opts), 0..4).boxed()
}

fn renumber(c: &mut Case) -> usize {
    fn go(v: &mut Vec<S>, n: &mut u32, slots: &mut usize) {
        for s in v {
            match s {
                S::Marker(_, k) | S::Call(_, k) => {
                    *n += 1;
                    *k = *n;
                }
                S::ErrorSlot(k) => {
                    *k = *slots as u32;
                    *slots += 1;
                }
                S::Rule(_, b) | S::PropBlock(_, b) | S::Media(b) | S::Supports(b) | S::Unknown(b) | S::Each(_, b) | S::For(_, b) | S::IncludeContent(b) => go(b, n, slots),
                S::If(_, a, b) => {
                    go(a, n, slots);
                    go(b, n, slots);
                }
                S::Include(_) | S::Load(..) => {}
            }
        }
    }
    let (mut n, mut slots) = (0u32, 0usize);
    go(&mut c.top, &mut n, &mut slots);
    for m in &mut c.mixins {
        go(m, &mut n, &mut slots);
    }
    go(&mut c.mc_before, &mut n, &mut slots);
    go(&mut c.mc_after, &mut n, &mut slots);
    for f in &mut c.files {
        go(f, &mut n, &mut slots);
    }
    for s in &mut c.fn_slots {
        *s = slots as u32;
        slots += 1;
    }
    slots
}

fn cases() -> impl Strategy<Value = Case> {
    (
        stmts(3, Ctx::Top, true, true),
        stmts(2, Ctx::Top, false, false),
        stmts(2, Ctx::Rule, false, false),
        stmts(1, Ctx::Top, false, false),
        stmts(1, Ctx::Top, false, false),
        proptest::collection::vec(stmts(2, Ctx::Top, false, false), 3),
        any::<bool>(),
        proptest::option::weighted(0.5, any::<proptest::sample::Index>()),
        proptest::collection::vec(0u8..7, 2),
    )
        .prop_map(|(top, m0, m1, mc_before, mc_after, files, use_f0, err, fn_kinds)| {
            // loaded files are modules of their own (for @use and load-css): they do not see main's functions
            fn no_calls(v: &mut Vec<S>) {
                for s in v {
                    match s {
                        S::Call(_, k) => *s = S::Marker(Mk::Decl, *k),
                        S::Rule(_, b) | S::PropBlock(_, b) | S::Media(b) | S::Supports(b) | S::Unknown(b) | S::Each(_, b) | S::For(_, b) | S::IncludeContent(b) => no_calls(b),
                        S::If(_, a, b) => {
                            no_calls(a);
                            no_calls(b);
                        }
                        _ => {}
                    }
                }
            }
            let mut files = files;
            for f in &mut files {
                no_calls(f);
            }
            let mut c = Case { top, mixins: vec![m0, m1], mc_before, mc_after, fn_slots: vec![0, 0], fn_kinds, files, use_f0, error_at: None };
            let slots = renumber(&mut c);
            c.error_at = err.and_then(|i| if slots == 0 { None } else { Some(i.index(slots)) });
            c
        })
}

// ---------- rendering ----------

impl Case {
    fn render(&self, v: &[S], ind: usize, loop_depth: usize, out: &mut String) {
        let pad = "  ".repeat(ind);
        for s in v {
            out.push_str(&pad);
            match s {
                S::Marker(Mk::Decl, k) => out.push_str(&format!("m{k}: v;\n")),
                S::Marker(Mk::At, k) => out.push_str(&format!("@layer mark{k};\n")),
                S::Marker(Mk::Comment, k) => out.push_str(&format!("/* M{k}m */\n")),
                S::ErrorSlot(k) => {
                    if self.error_at == Some(*k as usize) {
                        out.push_str(&format!("@error \"E{k}e\";\n"));
                    } else {
                        out.push('\n');
                    }
                }
                S::Call(f, k) => out.push_str(&format!("r{k}: fn{f}();\n")),
                S::Rule(sel, b) => self.block(&format!("{sel} "), b, ind, loop_depth, out),
                S::PropBlock(n, b) => self.block(&format!("{n}: "), b, ind, loop_depth, out),
                S::Media(b) => self.block("@media screen ", b, ind, loop_depth, out),
                S::Supports(b) => self.block("@supports (x: y) ", b, ind, loop_depth, out),
                S::Unknown(b) => self.block("@layer base ", b, ind, loop_depth, out),
                S::If(c, a, b) => {
                    out.push_str(&format!("@if {c} {{\n"));
                    self.render(a, ind + 1, loop_depth, out);
                    out.push_str(&format!("{pad}}} @else {{\n"));
                    self.render(b, ind + 1, loop_depth, out);
                    out.push_str(&format!("{pad}}}\n"));
                }
                S::Each(n, b) => {
                    let items: Vec<String> = (1..=*n).map(|i| format!("k{i}")).collect();
                    self.block(&format!("@each $v{loop_depth} in ({}) ", items.join(", ")), b, ind, loop_depth + 1, out);
                }
                S::For(n, b) => self.block(&format!("@for $v{loop_depth} from 0 to {n} "), b, ind, loop_depth + 1, out),
                S::Include(i) => out.push_str(&format!("@include m{i};\n")),
                S::IncludeContent(b) => self.block("@include mc ", b, ind, loop_depth, out),
                S::Load(0, f) => out.push_str(&format!("@import \"f{f}\";\n")),
                S::Load(2, f) => out.push_str(&format!("@import \"f{f}\", \"f{}\";\n", 3 - f)),
                S::Load(_, f) => out.push_str(&format!("@include meta.load-css(\"f{f}\");\n")),
            }
        }
    }
    fn block(&self, head: &str, b: &[S], ind: usize, loop_depth: usize, out: &mut String) {
        out.push_str(head);
        out.push_str("{\n");
        self.render(b, ind + 1, loop_depth, out);
        out.push_str(&"  ".repeat(ind));
        out.push_str("}\n");
    }

    pub fn sources(&self) -> Vec<(String, String)> {
        let mut main = String::from("@use \"sass:meta\";\n");
        if self.use_f0 {
            main.push_str("@use \"f0\";\n");
        }
        for (i, slot) in self.fn_slots.iter().enumerate() {
            let e = if self.error_at == Some(*slot as usize) { format!("@error \"E{slot}e\";") } else { String::new() };
            let body = match self.fn_kinds.get(i).copied().unwrap_or(0) {
                0 => e,
                1 => format!("@if true {{ {e} }}"),
                2 => format!("@each $x in (a, b) {{ {e} }}"),
                3 => format!("@for $x from 0 to 2 {{ {e} }}"),
                4 => format!("$n: 0; @while $n < 1 {{ $n: $n + 1; {e} }}"),
                5 => format!("@if false {{ }} @else {{ {e} }}"),
                _ => format!("@each $x in (a) {{ @for $y from 0 to 1 {{ @if $x == a {{ {e} }} }} }}"),
            };
            main.push_str(&format!("@function fn{i}() {{\n  {body}\n  @return 1;\n}}\n"));
        }
        for (i, m) in self.mixins.iter().enumerate() {
            main.push_str(&format!("@mixin m{i} {{\n"));
            self.render(m, 1, 0, &mut main);
            main.push_str("}\n");
        }
        main.push_str("@mixin mc {\n");
        self.render(&self.mc_before, 1, 0, &mut main);
        main.push_str("  @content;\n");
        self.render(&self.mc_after, 1, 0, &mut main);
        main.push_str("}\n");
        self.render(&self.top, 0, 0, &mut main);
        let mut files = vec![("main.scss".to_string(), main)];
        for (i, f) in self.files.iter().enumerate() {
            let mut t = String::new();
            self.render(f, 0, 0, &mut t);
            files.push((format!("_f{i}.scss"), t));
        }
        files
    }
}

// ---------- reference ----------

#[derive(Default)]
struct Reached {
    /// marker id -> times reached
    markers: BTreeMap<u32, usize>,
    /// the written @error was reached
    error: bool,
    /// a file was loaded a second time: counts of its markers are not judged (module caching rules differ per load kind)
    reloaded: bool,
    loaded: Vec<usize>,
}

impl Case {
    fn walk(&self, v: &[S], r: &mut Reached) {
        for s in v {
            if r.error {
                return;
            }
            match s {
                S::Marker(_, k) => *r.markers.entry(*k).or_default() += 1,
                S::ErrorSlot(k) => {
                    if self.error_at == Some(*k as usize) {
                        r.error = true;
                    }
                }
                S::Call(f, k) => {
                    if self.error_at == Some(self.fn_slots[*f] as usize) {
                        r.error = true;
                    } else {
                        *r.markers.entry(*k).or_default() += 1;
                    }
                }
                S::Rule(_, b) | S::PropBlock(_, b) | S::Media(b) | S::Supports(b) | S::Unknown(b) => self.walk(b, r),
                S::If(c, a, b) => self.walk(if *c { a } else { b }, r),
                S::Each(n, b) | S::For(n, b) => {
                    for _ in 0..*n {
                        self.walk(b, r);
                    }
                }
                S::Include(i) => self.walk(&self.mixins[*i], r),
                S::IncludeContent(b) => {
                    self.walk(&self.mc_before, r);
                    self.walk(b, r);
                    self.walk(&self.mc_after, r);
                }
                S::Load(k, f) => {
                    let targets = if *k == 2 { vec![*f, 3 - *f] } else { vec![*f] };
                    for t in targets {
                        if r.loaded.contains(&t) {
                            r.reloaded = true;
                        }
                        r.loaded.push(t);
                        self.walk(&self.files[t], r);
                    }
                }
            }
        }
    }
    fn reached(&self) -> Reached {
        let mut r = Reached::default();
        if self.use_f0 {
            r.loaded.push(0);
            self.walk(&self.files[0], &mut r);
        }
        self.walk(&self.top, &mut r);
        r
    }
}

fn occurrences(hay: &str, needle: &str) -> usize {
    // the needle must end at a non-digit (m1 vs m12)
    let mut n = 0;
    let mut from = 0;
    while let Some(p) = hay[from..].find(needle) {
        let end = from + p + needle.len();
        if !hay[end..].starts_with(|c: char| c.is_ascii_digit()) {
            n += 1;
        }
        from = end;
    }
    n
}

impl Prop for C21 {
    type Case = Case;
    const ID: &'static str = "C21";
    fn new() -> Self {
        C21
    }
    fn rule(&self) -> String {
        "programs (depth <= 3) with uniquely named markers - declarations `m<k>`, childless at-rules `@layer mark<k>;` and loud comments - in every container: style rules, nested property blocks (also with an at-rule inside), @media, @supports, @layer blocks, @if/@else, @each and @for loops of 0..2 rounds, two mixins, a mixin with @content, declarations calling two functions, a module loaded by @use, files loaded by @import (also two targets in one rule) and meta.load-css (at top level and below rules); in half of the cases one `@error \"E<k>e\"` is written at a random statement position (including function bodies, mixins, content blocks, loops and loaded files). Oracle: a reference walk tells which markers are reached how often and whether the @error is reached. If it is reached the compilation must fail. Otherwise the compilation fails, or every reached marker occurs in the output exactly as often as it was reached. Non-trivial: the @error is reached, or at least 3 markers are reached through a mixin, loop, load or property block; distinct by case".into()
    }
    fn assumptions(&self) -> Vec<String> {
        vec![
            "when a file is loaded more than once, marker counts are only required to be at least one (module caching differs per load kind)".into(),
            "a compilation error is accepted for any program (the statement allows it); the generated programs are valid Sass except for at-rules inside nested property blocks".into(),
        ]
    }
    fn phases(&self, tier: Tier) -> Vec<Phase<Case>> {
        vec![Phase::random("programs", cases(), tier.pick(100_000, 2_000_000))]
    }
    fn render(&self, c: &Case) -> serde_json::Value {
        let r = c.reached();
        serde_json::json!({"files": c.sources(), "error_reached": r.error, "reached_markers": r.markers})
    }
    fn check(&self, c: &Case) -> Verdict {
        let files = c.sources();
        let r = c.reached();
        let res = rs::compile_files(&files, "main.scss", &Opts::default());
        let show = || files.iter().map(|(n, t)| format!("--- {n}\n{t}")).collect::<String>();
        match &res {
            Res::Panic(m) => return Verdict::fail(format!("panic: {m}\n{}", show())),
            Res::Err { text, .. } => {
                if r.error {
                    let tag = format!("E{}e", c.error_at.unwrap());
                    // (the statement asks for a failing compilation; a different message, e.g. a parse error of rsass for
                    // `@error` inside an unknown at-rule, is still a failure)
                    return Verdict::pass(true).class("error-reached").class_if(!text.contains(&tag), "fails-with-another-message");
                }
                let t: String = text.lines().next().unwrap_or("").chars().filter(|c| !c.is_ascii_digit()).take(40).collect();
                return Verdict::pass(false).class("compilation-fails").class(format!("fails: {t}"));
            }
            Res::Ok(out) => {
                let out = String::from_utf8_lossy(out).to_string();
                if r.error {
                    return Verdict::fail(format!("@error \"E{}e\" is reached but the compilation succeeds\n{}\noutput:\n{out}", c.error_at.unwrap(), show()));
                }
                // marker kinds by id
                let mut kinds: BTreeMap<u32, (Mk, bool)> = BTreeMap::new();
                fn collect(v: &[S], k: &mut BTreeMap<u32, (Mk, bool)>) {
                    for s in v {
                        match s {
                            S::Marker(m, id) => {
                                k.insert(*id, (m.clone(), false));
                            }
                            S::Call(_, id) => {
                                k.insert(*id, (Mk::Decl, true));
                            }
                            S::Rule(_, b) | S::PropBlock(_, b) | S::Media(b) | S::Supports(b) | S::Unknown(b) | S::Each(_, b) | S::For(_, b) | S::IncludeContent(b) => collect(b, k),
                            S::If(_, a, b) => {
                                collect(a, k);
                                collect(b, k);
                            }
                            _ => {}
                        }
                    }
                }
                collect(&c.top, &mut kinds);
                for m in &c.mixins {
                    collect(m, &mut kinds);
                }
                collect(&c.mc_before, &mut kinds);
                collect(&c.mc_after, &mut kinds);
                for f in &c.files {
                    collect(f, &mut kinds);
                }
                for (id, times) in &r.markers {
                    let needle = match &kinds[id] {
                        (Mk::Decl, true) => format!("r{id}"),
                        (Mk::Decl, false) => format!("m{id}"),
                        (Mk::At, _) => format!("@layer mark{id}"),
                        (Mk::Comment, _) => format!("M{id}"),
                    };
                    let got = occurrences(&out, &needle);
                    let ok = if r.reloaded { got >= 1 } else { got == *times };
                    if !ok {
                        return Verdict::fail(format!("marker {needle} is reached {times} time(s) but occurs {got} time(s) in the output\n{}\noutput:\n{out}", show()));
                    }
                }
                fn has_indirect(v: &[S]) -> bool {
                    v.iter().any(|s| match s {
                        S::Include(_) | S::IncludeContent(_) | S::Load(..) | S::PropBlock(..) | S::Each(..) | S::For(..) => true,
                        S::Rule(_, b) | S::Media(b) | S::Supports(b) | S::Unknown(b) => has_indirect(b),
                        S::If(_, a, b) => has_indirect(a) || has_indirect(b),
                        _ => false,
                    })
                }
                Verdict::pass(r.markers.len() >= 3 && has_indirect(&c.top)).class_if(c.error_at.is_some(), "error-not-reached").class_if(r.reloaded, "file-loaded-twice").class_if(c.use_f0, "use")
            }
        }
    }
}
