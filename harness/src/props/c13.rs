//! C13 Map keys follow `==` and map equality ignores order.

use crate::engine::{Phase, Prop, Tier, Verdict};
use crate::rs::{self, Res};
use proptest::prelude::*;
use serde::{Deserialize, Serialize};

pub struct C13;

/// key texts with their `==` class (Sass equality: 1 == 1.0, 1in == 96px, a == "a", red == #f00; brackets and separators matter)
pub const KEYS: &[(&str, u8)] = &[
    ("1", 1), ("1.0", 1), ("1in", 2), ("96px", 2), ("a", 3), ("\"a\"", 3), ("'a'", 3), ("red", 4), ("#f00", 4), ("#ff0000", 4), ("(1 2)", 5), ("[1 2]", 6), ("true", 7), ("null", 8), ("(x y)", 9), ("2", 10), ("b", 11),
    ("1px", 12), ("(1, 2)", 13), ("0.5", 14), (".5", 14), ("50%", 15), ("(k: v)", 16), ("(\"k\": v)", 16), ("false", 17), ("\"1\"", 18), ("blue", 19), ("rgb(0, 0, 255)", 19), ("2.54cm", 2), ("100ms", 20), ("0.1s", 20),
];

#[derive(Clone, Debug, Serialize, Deserialize, PartialEq)]
pub enum Op {
    Get(usize),
    HasKey(usize),
    Remove(usize),
    Set(usize, u32),
    /// merge with a second map given as (key index, value) entries of distinct classes
    Merge(Vec<(usize, u32)>),
}

#[derive(Clone, Debug, Serialize, Deserialize)]
pub enum Case {
    Ops { init: Vec<(usize, u32)>, ops: Vec<Op>, module_forms: bool },
    /// a literal with two `==` keys must be an error
    Dup { init: Vec<(usize, u32)>, twin: usize, at: usize },
    /// m == permutation(m); with `change`, one value differs and the maps must be unequal
    Permute {
        init: Vec<(usize, u32)>,
        rot: usize,
        swap: bool,
        change: bool,
        /// one entry is dropped from the second map (a proper sub-map): the maps must be unequal in both directions
        #[serde(default)]
        drop: bool,
    },
}

fn class(k: usize) -> u8 {
    KEYS[k % KEYS.len()].1
}
fn key(k: usize) -> &'static str {
    KEYS[k % KEYS.len()].0
}

/// drop later entries whose key class already occurred
fn distinct(v: &[(usize, u32)]) -> Vec<(usize, u32)> {
    let mut out: Vec<(usize, u32)> = vec![];
    for (k, val) in v {
        if !out.iter().any(|(k2, _)| class(*k2) == class(*k)) {
            out.push((*k, *val));
        }
    }
    out
}

/// the value stored for the number v: mostly the number itself, sometimes a null-ish or false value
fn val(v: u32) -> String {
    match v % 10 {
        0 => "null".into(),
        1 => "()".into(),
        2 => "(null,)".into(),
        3 => "(null null)".into(),
        4 => "false".into(),
        _ => v.to_string(),
    }
}

fn literal(v: &[(usize, u32)]) -> String {
    if v.is_empty() {
        return "map.remove((zz: 0), zz)".into();
    }
    format!("({})", v.iter().map(|(k, n)| format!("{}: {}", key(*k), val(*n))).collect::<Vec<_>>().join(", "))
}

fn entries() -> impl Strategy<Value = Vec<(usize, u32)>> {
    proptest::collection::vec((0..KEYS.len(), 100u32..1000), 0..9).prop_map(|v| distinct(&v))
}

fn op() -> impl Strategy<Value = Op> {
    prop_oneof![
        3 => (0..KEYS.len()).prop_map(Op::Get),
        2 => (0..KEYS.len()).prop_map(Op::HasKey),
        2 => (0..KEYS.len()).prop_map(Op::Remove),
        3 => ((0..KEYS.len()), 1000u32..2000).prop_map(|(k, v)| Op::Set(k, v)),
        2 => proptest::collection::vec((0..KEYS.len(), 2000u32..3000), 0..5).prop_map(|v| Op::Merge(distinct(&v))),
    ]
}

fn cases() -> impl Strategy<Value = Case> {
    prop_oneof![
        6 => (entries(), proptest::collection::vec(op(), 1..10), any::<bool>()).prop_map(|(init, ops, module_forms)| Case::Ops { init, ops, module_forms }),
        1 => (entries(), 0..KEYS.len(), any::<usize>()).prop_map(|(init, twin, at)| Case::Dup { init, twin, at }),
        3 => (entries(), any::<usize>(), any::<bool>(), any::<bool>(), proptest::bool::weighted(0.3)).prop_map(|(init, rot, swap, change, drop)| Case::Permute { init, rot, swap, change: change && !drop, drop }),
    ]
}

fn frame(src: &str) -> Result<Vec<String>, Res> {
    // zzq { p0: …; p1: …; } -> values
    let r = rs::compile(src.as_bytes(), &rs::Opts::default());
    let Some(out) = r.ok_str() else { return Err(r) };
    let mut vals = vec![];
    for line in out.lines() {
        if let Some(rest) = line.trim().strip_prefix('p') {
            if let Some((_, v)) = rest.split_once(": ") {
                vals.push(v.trim_end_matches(';').to_string());
            }
        }
    }
    Ok(vals)
}

impl Prop for C13 {
    type Case = Case;
    const ID: &'static str = "C13";
    fn new() -> Self {
        C13
    }
    fn rule(&self) -> String {
        "maps of up to 8 entries whose keys come from a pool of 31 texts in 20 `==` classes (1/1.0, 1in/96px/2.54cm, a/\"a\"/'a', red/#f00/#ff0000, blue/rgb(0,0,255), .5/0.5, 100ms/0.1s, (k: v)/(\"k\": v), (1 2) vs [1 2] vs (1, 2), true, false, null, ...) and sequences of 1..9 operations get/has-key/remove/set/merge (global and module forms), checked step by step against a reference ordered-map model (keys compared by class); literals with two `==` keys (must be an error); a map against a rotation/swap of its entries (must be ==) and against the same with one value changed or one entry dropped (must be != in both directions). Non-trivial: a sequence that touches a key through a different spelling of its class, or a permutation other than the identity; distinct by case".into()
    }
    fn assumptions(&self) -> Vec<String> {
        vec!["the key classes are the Sass equality classes; that rsass's == agrees on them is C12's business, but a disagreement would surface here as a lookup mismatch".into()]
    }
    fn phases(&self, tier: Tier) -> Vec<Phase<Case>> {
        vec![Phase::random("maps", cases(), tier.pick(30_000, 1_500_000))]
    }
    fn check(&self, c: &Case) -> Verdict {
        match c {
            Case::Dup { init, twin, at } => {
                let mut v = init.clone();
                if v.is_empty() {
                    v.push((0, 100));
                }
                let pos = at % v.len();
                // a second spelling (or the same) of the class of v[pos]
                let cls = class(v[pos].0);
                let twins: Vec<usize> = (0..KEYS.len()).filter(|k| class(*k) == cls).collect();
                let t = twins[twin % twins.len()];
                v.push((t, 999));
                let src = format!("{}zzq {{ p0: inspect({}) }}\n", rs::USES, literal(&v));
                match rs::compile(src.as_bytes(), &rs::Opts::default()) {
                    Res::Err { .. } => Verdict::pass(true).class("duplicate-key-literal"),
                    Res::Panic(m) => Verdict::fail(format!("panic: {m}")),
                    Res::Ok(o) => Verdict::fail(format!("map literal {} has two == keys ({} and {}) but compiles to {:?}", literal(&v), key(v[pos].0), key(t), String::from_utf8_lossy(&o))),
                }
            }
            Case::Permute { init, rot, swap, change, drop } => {
                let a = init.clone();
                if a.len() < 2 {
                    return Verdict::pass(false);
                }
                let mut b = a.clone();
                b.rotate_left(rot % a.len());
                if *swap {
                    b.swap(0, 1);
                }
                // use other spellings of the keys in b
                let mut b: Vec<(usize, u32)> = b.into_iter().map(|(k, v)| ((0..KEYS.len()).rev().find(|k2| class(*k2) == class(k)).unwrap_or(k), v)).collect();
                if *change {
                    b[0].1 += 1;
                }
                if *drop {
                    b.remove(rot % b.len());
                }
                let change = &(*change || *drop);
                let src = format!("{}zzq {{ p0: {} == {}; p1: {} == {}; p2: {} != {} }}\n", rs::USES, literal(&a), literal(&b), literal(&b), literal(&a), literal(&a), literal(&b));
                let vals = match frame(&src) {
                    Ok(v) => v,
                    Err(r) => return Verdict::fail(format!("{src:?}: {}", r.brief())),
                };
                let want = if *change { "false" } else { "true" };
                let wantne = if *change { "true" } else { "false" };
                let identity = a.iter().map(|x| class(x.0)).eq(b.iter().map(|x| class(x.0)));
                if vals.len() == 3 && vals[0] == want && vals[1] == want && vals[2] == wantne {
                    Verdict::pass(!identity).class(if *change { "unequal-maps" } else { "permuted-maps" })
                } else {
                    Verdict::fail(format!("{} == {} gave {:?} (==, reversed ==, !=), expected {want} {want} {wantne}", literal(&a), literal(&b), vals))
                }
            }
            Case::Ops { init, ops, module_forms } => {
                let f = |g: &'static str, m: &'static str| if *module_forms { m } else { g };
                let mut model: Vec<(usize, u32)> = init.clone();
                let mut state = literal(init);
                let mut probes: Vec<String> = vec![];
                let mut want: Vec<String> = vec![];
                let mut twin_touch = false;
                for o in ops {
                    match o {
                        Op::Get(k) => {
                            let hit = model.iter().find(|(k2, _)| class(*k2) == class(*k));
                            twin_touch |= hit.is_some_and(|(k2, _)| k2 != k);
                            probes.push(format!("inspect({}({state}, {}))", f("map-get", "map.get"), key(*k)));
                            want.push(format!("={}", hit.map(|(_, v)| val(*v)).unwrap_or("null".into())));
                        }
                        Op::HasKey(k) => {
                            let hit = model.iter().find(|(k2, _)| class(*k2) == class(*k));
                            twin_touch |= hit.is_some_and(|(k2, _)| k2 != k);
                            probes.push(format!("{}({state}, {})", f("map-has-key", "map.has-key"), key(*k)));
                            want.push(hit.is_some().to_string());
                        }
                        Op::Remove(k) => {
                            twin_touch |= model.iter().any(|(k2, _)| class(*k2) == class(*k) && k2 != k);
                            model.retain(|(k2, _)| class(*k2) != class(*k));
                            state = format!("{}({state}, {})", f("map-remove", "map.remove"), key(*k));
                        }
                        Op::Set(k, v) => {
                            match model.iter_mut().find(|(k2, _)| class(*k2) == class(*k)) {
                                Some(e) => {
                                    twin_touch |= e.0 != *k;
                                    e.1 = *v;
                                }
                                None => model.push((*k, *v)),
                            }
                            // map.set exists only in the module; the global spelling is map-merge with a one-entry map
                            state = if *module_forms { format!("map.set({state}, {}, {})", key(*k), val(*v)) } else { format!("map-merge({state}, ({}: {}))", key(*k), val(*v)) };
                        }
                        Op::Merge(m2) => {
                            for (k, v) in m2 {
                                match model.iter_mut().find(|(k2, _)| class(*k2) == class(*k)) {
                                    Some(e) => {
                                        twin_touch |= e.0 != *k;
                                        e.1 = *v;
                                    }
                                    None => model.push((*k, *v)),
                                }
                            }
                            state = format!("{}({state}, {})", f("map-merge", "map.merge"), literal(m2));
                        }
                    }
                }
                // final state: length, values in order, keys in order (by ==)
                probes.push(format!("length({state})"));
                want.push(model.len().to_string());
                for (i, (_, v)) in model.iter().enumerate() {
                    probes.push(format!("inspect(nth({}({state}), {}))", f("map-values", "map.values"), i + 1));
                    want.push(format!("={}", val(*v)));
                }
                for (i, (k, _)) in model.iter().enumerate() {
                    probes.push(format!("nth({}({state}), {}) == {}", f("map-keys", "map.keys"), i + 1, key(*k)));
                    want.push("true".into());
                }
                // expectations of the form `=expr` mean "prints like inspect(expr)": evaluated as further probes
                let n_real = probes.len();
                let mut refs: Vec<Option<usize>> = vec![None; n_real];
                for i in 0..n_real {
                    if let Some(e) = want[i].strip_prefix('=') {
                        refs[i] = Some(probes.len());
                        probes.push(format!("inspect({e})"));
                    }
                }
                let mut src = String::from(rs::USES);
                src.push_str("zzq {\n");
                for (i, p) in probes.iter().enumerate() {
                    src.push_str(&format!("p{i}: {p};\n"));
                }
                src.push_str("}\n");
                let vals = match frame(&src) {
                    Ok(v) => v,
                    Err(Res::Panic(m)) => return Verdict::fail(format!("panic: {m}")),
                    Err(r) => return Verdict::fail(format!("map operations failed: {} in {src:?}", r.brief())),
                };
                if vals.len() != probes.len() {
                    return Verdict::fail(format!("expected {} results, got {:?} for {src:?}", probes.len(), vals));
                }
                for i in 0..n_real {
                    let g = &vals[i];
                    let w = match refs[i] {
                        Some(j) => &vals[j],
                        None => &want[i],
                    };
                    if g != w {
                        return Verdict::fail(format!("`{}` gave {g}, the map model gives {w}", probes[i]));
                    }
                }
                Verdict::pass(twin_touch).class_if(twin_touch, "twin-key-touched").class(if *module_forms { "module-forms" } else { "global-forms" })
            }
        }
    }
}
