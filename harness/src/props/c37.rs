//! C37 @use/@forward configuration and visibility rules hold.

use crate::cssread;
use crate::engine::{Phase, Prop, Tier, Verdict};
use crate::gen::one_of;
use crate::rs::{self, Opts, Res};
use proptest::prelude::*;
use serde::{Deserialize, Serialize};

pub struct C37;

/// the library module: `$a: 10 !default; $b: 20; $c: 30 !default;` functions fa fb fc, mixins ma mb mc (each showing its variable)
const VARS: &[(&str, i64, bool)] = &[("a", 10, true), ("b", 20, false), ("c", 30, true)];

#[derive(Clone, Debug, Serialize, Deserialize, PartialEq)]
pub enum Kind {
    Var,
    Fun,
    Mixin,
}

#[derive(Clone, Debug, Serialize, Deserialize, PartialEq)]
pub enum Ns {
    /// the namespace the @use rule defines
    Right,
    /// the URL's default namespace although `as x` / `as *` was given (same as Right when there is no `as`)
    Default,
    Wrong,
    /// no namespace
    Bare,
}

#[derive(Clone, Debug, Serialize, Deserialize)]
pub struct Access {
    pub kind: Kind,
    /// member name as the user writes it (may carry the forward prefix, or not)
    pub name: String,
    pub ns: Ns,
}

#[derive(Clone, Debug, Serialize, Deserialize, PartialEq)]
pub enum As {
    None,
    Name(String),
    Star,
}

#[derive(Clone, Debug, Serialize, Deserialize)]
pub struct Forward {
    pub prefix: Option<String>,
    /// Some((true, names)) = show, Some((false, names)) = hide; names as written (variables with `$`), already prefixed
    pub filter: Option<(bool, Vec<String>)>,
}

#[derive(Clone, Debug, Serialize, Deserialize)]
pub enum Case {
    Module {
        /// spelling of the library URL (0.. see URLS)
        url: usize,
        use_as: As,
        /// main uses `mid`, which forwards the library with this rule
        mid: Option<Forward>,
        /// configuration of the directly used library: (variable name, value or null)
        with: Vec<(String, Option<i64>)>,
        accesses: Vec<Access>,
    },
    /// built-in modules: 0 = configure, 1 = assign a variable, 2 = assign through `as` name
    Builtin(u8, String),
}

/// (url as written, file name, default namespace)
const URLS: &[(&str, &str, &str)] = &[("lib", "_lib.scss", "lib"), ("dir/lib", "dir/_lib.scss", "lib"), ("_lib", "_lib.scss", "lib"), ("lib.scss", "lib.scss", "lib"), ("dir/sub/lib", "dir/sub/lib.scss", "lib"), ("./lib", "_lib.scss", "lib"), ("lib.v2.scss", "lib.v2.scss", "lib"), ("dir/lib.min", "dir/_lib.min.scss", "lib")];

fn lib_source() -> String {
    let mut s = String::new();
    for (n, v, d) in VARS {
        s.push_str(&format!("${n}: {v}{};\n", if *d { " !default" } else { "" }));
    }
    for (n, _, _) in VARS {
        s.push_str(&format!("@function f{n}() {{ @return ${n}; }}\n@mixin m{n}() {{ x {{ y: ${n}; }} }}\n"));
    }
    s.push_str(".lib { loaded: yes; }\n");
    s
}

fn member_names() -> Vec<String> {
    let mut v = vec![];
    for (n, _, _) in VARS {
        v.push(format!("${n}"));
        v.push(format!("f{n}"));
        v.push(format!("m{n}"));
    }
    v
}

fn cases() -> impl Strategy<Value = Case> {
    let use_as = prop_oneof![3 => Just(As::None), 2 => one_of(&["x", "lib2", "mid"]).prop_map(As::Name), 2 => Just(As::Star)];
    let prefix = proptest::option::weighted(0.4, one_of(&["l-", "p_"]));
    let fwd = (prefix, proptest::option::weighted(0.6, (any::<bool>(), proptest::collection::vec(proptest::sample::select(member_names()), 1..4)))).prop_map(|(prefix, filter)| {
        // listed names are written with the prefix, as Sass requires
        let filter = filter.map(|(show, names)| {
            let names = names
                .into_iter()
                .map(|n| match (&prefix, n.strip_prefix('$')) {
                    (Some(p), Some(v)) => format!("${p}{v}"),
                    (Some(p), None) => format!("{p}{n}"),
                    (None, _) => n,
                })
                .collect();
            (show, names)
        });
        Forward { prefix, filter }
    });
    let with = proptest::collection::vec((one_of(&["a", "b", "c", "zz", "a", "c"]), proptest::option::weighted(0.85, 1i64..9)), 0..3);
    let access = (proptest::sample::select(vec![Kind::Var, Kind::Fun, Kind::Mixin]), 0usize..3, prop_oneof![5 => Just(Ns::Right), 1 => Just(Ns::Default), 1 => Just(Ns::Wrong), 2 => Just(Ns::Bare)], any::<bool>());
    let module = (0..URLS.len(), use_as, proptest::option::weighted(0.5, fwd), with, proptest::collection::vec(access, 1..5)).prop_map(|(url, use_as, mid, with, acc)| {
        let prefix = mid.as_ref().and_then(|m| m.prefix.clone());
        let accesses = acc
            .into_iter()
            .map(|(kind, i, ns, prefixed)| {
                let base = VARS[i].0;
                let plain = match kind {
                    Kind::Var => base.to_string(),
                    Kind::Fun => format!("f{base}"),
                    Kind::Mixin => format!("m{base}"),
                };
                // mostly the right spelling for the forward rule, sometimes the other one
                let name = match (&prefix, prefixed) {
                    (Some(p), true) => format!("{p}{plain}"),
                    (Some(_), false) | (None, true) => plain,
                    (None, false) => format!("l-{plain}"),
                };
                Access { kind, name, ns }
            })
            .collect();
        // configuration is only generated for a directly used library
        let with = if mid.is_some() { vec![] } else { with };
        Case::Module { url, use_as, mid, with, accesses }
    });
    prop_oneof![
        12 => module,
        1 => (0u8..3, one_of(&["math", "string", "list", "map", "color", "selector", "meta"])).prop_map(|(k, m)| Case::Builtin(k, m)),
    ]
}

/// the reference model: Err(()) = the compilation must fail
struct Model {
    /// values of a, b, c
    values: [i64; 3],
}

impl Case {
    fn files_and_use(&self) -> Option<(Vec<(String, String)>, String, String)> {
        let Case::Module { url, use_as, mid, with, .. } = self else { return None };
        let (u, file, default_ns) = URLS[*url];
        let mut files = vec![(file.to_string(), lib_source())];
        let (target, ns_default) = match mid {
            None => (u.to_string(), default_ns.to_string()),
            Some(f) => {
                let mut t = format!("@forward \"{u}\"");
                if let Some(p) = &f.prefix {
                    t.push_str(&format!(" as {p}*"));
                }
                if let Some((show, names)) = &f.filter {
                    t.push_str(&format!(" {} {}", if *show { "show" } else { "hide" }, names.join(", ")));
                }
                t.push_str(";\n");
                files.push(("_mid.scss".to_string(), t));
                ("mid".to_string(), "mid".to_string())
            }
        };
        let mut rule = format!("@use \"{target}\"");
        match use_as {
            As::None => {}
            As::Name(n) => rule.push_str(&format!(" as {n}")),
            As::Star => rule.push_str(" as *"),
        }
        if !with.is_empty() {
            let items: Vec<String> = with.iter().map(|(n, v)| format!("${n}: {}", v.map(|x| x.to_string()).unwrap_or("null".into()))).collect();
            rule.push_str(&format!(" with ({})", items.join(", ")));
        }
        rule.push_str(";\n");
        Some((files, rule, ns_default))
    }

    /// Err = the @use rule itself must fail
    fn model(&self) -> Result<Model, String> {
        let Case::Module { with, .. } = self else { unreachable!() };
        let mut values = [VARS[0].1, VARS[1].1, VARS[2].1];
        let mut seen = std::collections::BTreeSet::new();
        for (n, v) in with {
            if !seen.insert(n.clone()) {
                return Err(format!("${n} is configured twice"));
            }
            match VARS.iter().position(|x| x.0 == n) {
                None => return Err(format!("${n} is not a variable of the module")),
                Some(i) if !VARS[i].2 => return Err(format!("${n} is not declared with !default")),
                Some(i) => {
                    // null leaves the default in place
                    if let Some(v) = v {
                        values[i] = *v;
                    }
                }
            }
        }
        Ok(Model { values })
    }

    /// what one access must give: Ok(text of the value) or Err(reason)
    fn expect(&self, m: &Model, a: &Access, ns_default: &str) -> Result<String, String> {
        let Case::Module { use_as, mid, .. } = self else { unreachable!() };
        // namespace
        let written_ns: Option<String> = match (&a.ns, use_as) {
            (Ns::Bare, _) => None,
            (Ns::Wrong, _) => Some("other".into()),
            (Ns::Right, As::None) | (Ns::Default, _) => Some(ns_default.to_string()),
            (Ns::Right, As::Name(n)) => Some(n.clone()),
            (Ns::Right, As::Star) => None,
        };
        let valid_ns: Option<String> = match use_as {
            As::None => Some(ns_default.to_string()),
            As::Name(n) => Some(n.clone()),
            As::Star => None,
        };
        // member visibility through the (optional) forward rule
        let prefix = mid.as_ref().and_then(|f| f.prefix.clone()).unwrap_or_default();
        let listed_name = if a.kind == Kind::Var { format!("${}", a.name) } else { a.name.clone() };
        let base: Option<&str> = a.name.strip_prefix(prefix.as_str());
        let member_index = base.and_then(|b| {
            let stem = match a.kind {
                Kind::Var => Some(b),
                Kind::Fun => b.strip_prefix('f'),
                Kind::Mixin => b.strip_prefix('m'),
            }?;
            VARS.iter().position(|x| x.0 == stem)
        });
        let visible = match (member_index, mid.as_ref().and_then(|f| f.filter.as_ref())) {
            (None, _) => false,
            (Some(_), None) => true,
            (Some(_), Some((true, names))) => names.contains(&listed_name),
            (Some(_), Some((false, names))) => !names.contains(&listed_name),
        };
        match (&written_ns, &valid_ns) {
            (Some(w), Some(v)) if w == v => {}
            (None, None) => {}
            (None, Some(_)) => {
                // no namespace although one is needed: a variable or mixin is undefined, a function call is plain CSS
                return match a.kind {
                    Kind::Fun => Ok(format!("{}()", a.name)),
                    _ => Err("member used without its namespace".into()),
                };
            }
            (Some(w), _) => return Err(format!("there is no module with the namespace {w}")),
        }
        if !visible {
            // a bare call of an unknown function under `as *` is plain CSS as well
            if a.kind == Kind::Fun && written_ns.is_none() {
                return Ok(format!("{}()", a.name));
            }
            return Err("the member is not visible".into());
        }
        Ok(m.values[member_index.unwrap()].to_string())
    }
}

fn run(files: &[(String, String)], main: &str) -> Res {
    let mut f = files.to_vec();
    f.push(("main.scss".to_string(), main.to_string()));
    rs::compile_files(&f, "main.scss", &Opts::default())
}

impl Prop for C37 {
    type Case = Case;
    const ID: &'static str = "C37";
    fn new() -> Self {
        C37
    }
    fn rule(&self) -> String {
        "a library module (three variables, two of them !default, a function and a mixin per variable) reached by 8 URL spellings (partial, sub-directories, explicit extension, ./, two dots in the last segment), used directly or through a middle module that forwards it plainly, with a prefix, with show or hide lists of 1..3 members, or both; @use with no `as`, `as name` or `as *`; `with` maps of 0..2 entries hitting !default, non-default and unknown variables, duplicates and null values; 1..4 accesses per case, each compiled on its own: variable, function or mixin, by the right, the default, a wrong or no namespace, with the prefixed or the unprefixed spelling. Built-in cases: configuring a sass: module, assigning one of its variables. Oracle: a reference model of configuration (values, or error), namespaces and forward filters gives the expected value or `error` for every access. Non-trivial: the @use rule is valid and at least one access goes through a forward rule, an `as` clause or a configuration; distinct by case".into()
    }
    fn assumptions(&self) -> Vec<String> {
        vec![
            "configuration is only generated for a module that is used directly (rsass applies `with` to the module named in the rule; passing it through @forward is a different matter not claimed here)".into(),
            "private members (`$-x`, `$_x`) are not generated".into(),
            "a function called without namespace is not an error in Sass but a plain CSS function; the model expects its text".into(),
        ]
    }
    fn phases(&self, tier: Tier) -> Vec<Phase<Case>> {
        vec![Phase::random("modules", cases(), tier.pick(60_000, 1_500_000))]
    }
    fn render(&self, c: &Case) -> serde_json::Value {
        match c.files_and_use() {
            Some((files, rule, _)) => serde_json::json!({"files": files, "use_rule": rule, "case": c}),
            None => serde_json::json!({"case": c}),
        }
    }
    fn check(&self, c: &Case) -> Verdict {
        match c {
            Case::Builtin(k, m) => {
                let var = match m.as_str() {
                    "math" => "pi",
                    _ => "x",
                };
                let src = match k {
                    0 => format!("@use \"sass:{m}\" with (${var}: 1);\nq {{ r: 1 }}\n"),
                    1 => format!("@use \"sass:{m}\";\n{m}.${var}: 1;\nq {{ r: 1 }}\n"),
                    _ => format!("@use \"sass:{m}\" as z;\nz.${var}: 1;\nq {{ r: 1 }}\n"),
                };
                match run(&[], &src) {
                    Res::Err { .. } => Verdict::pass(true).class("builtin"),
                    Res::Panic(p) => Verdict::fail(format!("panic for {src:?}: {p}")),
                    Res::Ok(b) => Verdict::fail(format!("a built-in module can be configured or assigned to: {src:?} gives {:?}", String::from_utf8_lossy(&b))),
                }
            }
            Case::Module { use_as, mid, with, accesses, .. } => {
                let (files, rule, ns_default) = c.files_and_use().unwrap();
                let model = c.model();
                // the rule itself
                let r = run(&files, &format!("{rule}q {{ r: 1 }}\n"));
                let m = match (&model, &r) {
                    (_, Res::Panic(p)) => return Verdict::fail(format!("panic for {rule:?}: {p}")),
                    (Err(why), Res::Ok(b)) => return Verdict::fail(format!("{rule:?} must fail ({why}) but gives {:?}", String::from_utf8_lossy(b))),
                    (Err(_), _) => return Verdict::pass(true).class("invalid-configuration"),
                    (Ok(_), Res::Err { .. }) => return Verdict::fail(format!("{rule:?} is valid but fails: {}", r.brief())),
                    (Ok(m), _) => m,
                };
                for a in accesses {
                    let want = c.expect(m, a, &ns_default);
                    let ns = match (&a.ns, use_as) {
                        (Ns::Bare, _) | (Ns::Right, As::Star) => String::new(),
                        (Ns::Wrong, _) => "other.".into(),
                        (Ns::Right, As::None) | (Ns::Default, _) => format!("{ns_default}."),
                        (Ns::Right, As::Name(n)) => format!("{n}."),
                    };
                    let src = match a.kind {
                        Kind::Var => format!("{rule}q {{ r: {ns}${}; }}\n", a.name),
                        Kind::Fun => format!("{rule}q {{ r: {ns}{}(); }}\n", a.name),
                        Kind::Mixin => format!("{rule}q {{ @include {ns}{}; }}\n", a.name),
                    };
                    let got = match run(&files, &src) {
                        Res::Panic(p) => return Verdict::fail(format!("panic for {src:?}: {p}")),
                        Res::Err { .. } => Err(()),
                        Res::Ok(b) => {
                            let out = String::from_utf8_lossy(&b).to_string();
                            let decls = cssread::parse_sheet(cssread::strip_marker(&out)).map(|n| cssread::flat_decls(&n)).unwrap_or_default();
                            let name = if a.kind == Kind::Mixin { "y" } else { "r" };
                            match decls.iter().find(|d| d.1 == name) {
                                Some(d) => Ok(d.2.clone()),
                                None => Ok(format!("<no `{name}` declaration in {out:?}>")),
                            }
                        }
                    };
                    let describe = || format!("files {:?}, main {src:?}", files.iter().filter(|f| f.0 == "_mid.scss").collect::<Vec<_>>());
                    match (&want, &got) {
                        (Ok(w), Ok(g)) if w == g => {}
                        (Err(_), Err(())) => {}
                        (Ok(w), Ok(g)) => return Verdict::fail(format!("expected {w} but got {g}: {}", describe())),
                        (Ok(w), Err(())) => return Verdict::fail(format!("expected {w} but the compilation fails: {}", describe())),
                        (Err(why), Ok(g)) => return Verdict::fail(format!("expected an error ({why}) but got {g}: {}", describe())),
                    }
                }
                let interesting = mid.is_some() || *use_as != As::None || !with.is_empty();
                Verdict::pass(interesting)
                    .class_if(mid.is_some(), "through-forward")
                    .class_if(mid.as_ref().is_some_and(|f| f.prefix.is_some()), "prefix")
                    .class_if(mid.as_ref().is_some_and(|f| f.filter.is_some()), "show-hide")
                    .class_if(!with.is_empty(), "configured")
                    .class_if(*use_as == As::Star, "as-star")
            }
        }
    }
}
