//! C34 Global and module function forms agree.

use crate::engine::{Phase, Prop, Tier, Verdict};
use crate::gen::one_of;
use crate::rs::{self, Res};
use proptest::prelude::*;
use serde::{Deserialize, Serialize};

pub struct C34;

#[derive(Clone, Copy, Debug, PartialEq)]
enum K {
    Str,
    Sub,
    Idx,
    Num,
    /// numbers that are mutually compatible (for min/max)
    NumFam,
    List,
    Sep,
    BoolAuto,
    Map,
    Key,
    Any,
    Color,
    Weight,
    Sel,
    Name,
    Feature,
}

struct Pair {
    global: &'static str,
    module: &'static str,
    member: &'static str,
    /// declared parameters (documented names)
    params: &'static [(&'static str, K)],
    /// how many of them are required
    required: usize,
    /// kind of the rest arguments (`$x...`), positional only
    rest: Option<K>,
    /// keyword-only arguments (always passed by name)
    kw: &'static [(&'static str, K)],
}

const fn p(global: &'static str, module: &'static str, member: &'static str, params: &'static [(&'static str, K)], required: usize) -> Pair {
    Pair { global, module, member, params, required, rest: None, kw: &[] }
}

/// pairs the Sass documentation declares equivalent (https://sass-lang.com/documentation/modules)
static PAIRS: &[Pair] = &[
    p("quote", "string", "quote", &[("string", K::Str)], 1),
    p("unquote", "string", "unquote", &[("string", K::Str)], 1),
    p("str-index", "string", "index", &[("string", K::Str), ("substring", K::Sub)], 2),
    p("str-insert", "string", "insert", &[("string", K::Str), ("insert", K::Sub), ("index", K::Idx)], 3),
    p("str-length", "string", "length", &[("string", K::Str)], 1),
    p("str-slice", "string", "slice", &[("string", K::Str), ("start-at", K::Idx), ("end-at", K::Idx)], 2),
    p("to-upper-case", "string", "to-upper-case", &[("string", K::Str)], 1),
    p("to-lower-case", "string", "to-lower-case", &[("string", K::Str)], 1),
    p("append", "list", "append", &[("list", K::List), ("val", K::Any), ("separator", K::Sep)], 2),
    p("index", "list", "index", &[("list", K::List), ("value", K::Any)], 2),
    p("is-bracketed", "list", "is-bracketed", &[("list", K::List)], 1),
    p("join", "list", "join", &[("list1", K::List), ("list2", K::List), ("separator", K::Sep), ("bracketed", K::BoolAuto)], 2),
    p("length", "list", "length", &[("list", K::List)], 1),
    p("list-separator", "list", "separator", &[("list", K::List)], 1),
    p("nth", "list", "nth", &[("list", K::List), ("n", K::Idx)], 2),
    p("set-nth", "list", "set-nth", &[("list", K::List), ("n", K::Idx), ("value", K::Any)], 3),
    Pair { global: "zip", module: "list", member: "zip", params: &[], required: 0, rest: Some(K::List), kw: &[] },
    Pair { global: "map-get", module: "map", member: "get", params: &[("map", K::Map), ("key", K::Key)], required: 2, rest: Some(K::Key), kw: &[] },
    Pair { global: "map-has-key", module: "map", member: "has-key", params: &[("map", K::Map), ("key", K::Key)], required: 2, rest: Some(K::Key), kw: &[] },
    p("map-keys", "map", "keys", &[("map", K::Map)], 1),
    p("map-values", "map", "values", &[("map", K::Map)], 1),
    p("map-merge", "map", "merge", &[("map1", K::Map), ("map2", K::Map)], 2),
    Pair { global: "map-remove", module: "map", member: "remove", params: &[("map", K::Map)], required: 1, rest: Some(K::Key), kw: &[] },
    p("abs", "math", "abs", &[("number", K::Num)], 1),
    p("ceil", "math", "ceil", &[("number", K::Num)], 1),
    p("floor", "math", "floor", &[("number", K::Num)], 1),
    p("round", "math", "round", &[("number", K::Num)], 1),
    p("percentage", "math", "percentage", &[("number", K::Num)], 1),
    p("unit", "math", "unit", &[("number", K::Num)], 1),
    p("unitless", "math", "is-unitless", &[("number", K::Num)], 1),
    p("comparable", "math", "compatible", &[("number1", K::Num), ("number2", K::Num)], 2),
    Pair { global: "max", module: "math", member: "max", params: &[], required: 0, rest: Some(K::NumFam), kw: &[] },
    Pair { global: "min", module: "math", member: "min", params: &[], required: 0, rest: Some(K::NumFam), kw: &[] },
    p("red", "color", "red", &[("color", K::Color)], 1),
    p("green", "color", "green", &[("color", K::Color)], 1),
    p("blue", "color", "blue", &[("color", K::Color)], 1),
    p("hue", "color", "hue", &[("color", K::Color)], 1),
    p("saturation", "color", "saturation", &[("color", K::Color)], 1),
    p("lightness", "color", "lightness", &[("color", K::Color)], 1),
    p("alpha", "color", "alpha", &[("color", K::Color)], 1),
    p("opacity", "color", "opacity", &[("color", K::Color)], 1),
    p("complement", "color", "complement", &[("color", K::Color)], 1),
    p("grayscale", "color", "grayscale", &[("color", K::Color)], 1),
    p("ie-hex-str", "color", "ie-hex-str", &[("color", K::Color)], 1),
    p("invert", "color", "invert", &[("color", K::Color), ("weight", K::Weight)], 1),
    p("mix", "color", "mix", &[("color1", K::Color), ("color2", K::Color), ("weight", K::Weight)], 2),
    Pair { global: "adjust-color", module: "color", member: "adjust", params: &[("color", K::Color)], required: 1, rest: None, kw: &[("red", K::Idx), ("blue", K::Idx), ("alpha", K::Sub)] },
    Pair { global: "scale-color", module: "color", member: "scale", params: &[("color", K::Color)], required: 1, rest: None, kw: &[("lightness", K::Weight), ("saturation", K::Weight), ("alpha", K::Weight)] },
    Pair { global: "change-color", module: "color", member: "change", params: &[("color", K::Color)], required: 1, rest: None, kw: &[("lightness", K::Weight), ("hue", K::Idx), ("alpha", K::Sub)] },
    Pair { global: "selector-append", module: "selector", member: "append", params: &[], required: 0, rest: Some(K::Sel), kw: &[] },
    Pair { global: "selector-nest", module: "selector", member: "nest", params: &[], required: 0, rest: Some(K::Sel), kw: &[] },
    p("selector-extend", "selector", "extend", &[("selector", K::Sel), ("extendee", K::Sel), ("extender", K::Sel)], 3),
    p("selector-replace", "selector", "replace", &[("selector", K::Sel), ("original", K::Sel), ("replacement", K::Sel)], 3),
    p("selector-parse", "selector", "parse", &[("selector", K::Sel)], 1),
    p("selector-unify", "selector", "unify", &[("selector1", K::Sel), ("selector2", K::Sel)], 2),
    p("is-superselector", "selector", "is-superselector", &[("super", K::Sel), ("sub", K::Sel)], 2),
    p("simple-selectors", "selector", "simple-selectors", &[("selector", K::Sel)], 1),
    p("feature-exists", "meta", "feature-exists", &[("feature", K::Feature)], 1),
    p("function-exists", "meta", "function-exists", &[("name", K::Name)], 1),
    p("mixin-exists", "meta", "mixin-exists", &[("name", K::Name)], 1),
    p("variable-exists", "meta", "variable-exists", &[("name", K::Name)], 1),
    p("global-variable-exists", "meta", "global-variable-exists", &[("name", K::Name)], 1),
    p("inspect", "meta", "inspect", &[("value", K::Any)], 1),
    p("type-of", "meta", "type-of", &[("value", K::Any)], 1),
    p("get-function", "meta", "get-function", &[("name", K::Name)], 1),
];

const PRELUDE: &str = "$x: 1; $red: 2; @function foo($a: 1) {@return $a} @function nth2($l) {@return 1} @mixin m {a{b:c}} @mixin foo {a{b:c}}\n";

#[derive(Clone, Debug, Serialize, Deserialize)]
pub struct Case {
    /// index in the table
    pub pair: usize,
    /// values for the declared parameters (a prefix of them, at least the required ones)
    pub args: Vec<String>,
    pub rest: Vec<String>,
    /// keyword-only arguments: (name, value)
    pub kw: Vec<(String, String)>,
    /// for the mixed form: how many declared parameters are passed by position
    pub split: usize,
}

fn num() -> BoxedStrategy<String> {
    let unit = one_of(&["", "", "", "px", "em", "%", "in", "deg", "s"]);
    prop_oneof![
        3 => ((-40i32..=40), unit.clone()).prop_map(|(v, u)| format!("{}{u}", v as f64 / 4.0)),
        2 => ((-9i32..=9), unit.clone()).prop_map(|(v, u)| format!("{}.5{u}", v).replace("-0.5", "-.5")),
        1 => ((-100000i64..=100000), unit.clone()).prop_map(|(v, u)| format!("{}{u}", v as f64 / 1000.0)),
        1 => one_of(&["0", "-0.5", "0.5", "-2.5", "2.5", "-1.5", "1.5", "1e3", "-0.0", "1.4999999999", "3.5px", "-3.5px", "100%", "1px*1px", "math.div(1, 3)", "1e15", "-1e15"]),
    ]
    .boxed()
}

fn kind(k: K) -> BoxedStrategy<String> {
    match k {
        K::Str => one_of(&["\"abc\"", "abc", "\"a b\"", "\"\"", "\"h\u{e9}llo\"", "a-b", "\"ABC def\"", "\"a\\\"b\"", "\"\u{1F600}x\"", "abcdef", "1", "null", "(a b)"]),
        K::Sub => one_of(&["\"b\"", "\"bc\"", "\"\"", "\"z\"", "b", "\"a\"", "0.5", "-0.25", "1"]),
        K::Idx => prop_oneof![4 => (-5i32..=6).prop_map(|v| v.to_string()), 1 => one_of(&["1.5", "2px", "100", "-100", "\"1\"", "1.0000000000001"])].boxed(),
        K::Num => num(),
        K::NumFam => num(),
        K::List => one_of(&["(a b c)", "(1, 2, 3)", "[a b]", "()", "a", "(a, b c, d)", "(k: v, l: w)", "1px 2px 1px", "[]", "(a,)", "[a, b]", "(a b) (c d)", "((a, b), (c, d))", "\"s\"", "(a / b)", "list.slash(a, b)", "(1 1.0 1px)"]),
        K::Sep => one_of(&["comma", "space", "slash", "auto", "\"comma\"", "bogus"]),
        K::BoolAuto => one_of(&["true", "false", "auto", "null", "1"]),
        K::Map => one_of(&["(a: 1, b: 2)", "()", "(a: (b: 2, c: 3), d: 4)", "(\"k\": v, 1: 2)", "(b: 3, c: 4)", "(a: null)", "(1px: x, 1: y)", "a", "(a b)"]),
        K::Key => one_of(&["a", "b", "c", "\"k\"", "1", "\"a\"", "1px", "null", "d"]),
        K::Any => prop_oneof![one_of(&["a", "\"a\"", "1", "1px", "null", "true", "red", "#f00", "(a b)", "(a: 1)", "()", "[a]", "c", "b c", "1.0", "d"]), num()].boxed(),
        K::Color => prop_oneof![3 => one_of(&["red", "#abc", "#12345678", "rgba(1, 2, 3, 0.5)", "hsl(120, 50%, 40%)", "hwb(30 20% 10%)", "transparent", "#808080", "black", "white", "1", "\"red\""]), 2 => super::c31::color().prop_filter("in range", |c| !c.hsl_out_of_range).prop_map(|c| c.text)].boxed(),
        K::Weight => prop_oneof![3 => (0u32..=100).prop_map(|v| format!("{v}%")), 1 => one_of(&["50", "0.5", "-10%", "110%", "25.5%"])].boxed(),
        K::Sel => one_of(&["\".a\"", "\".a .b\"", "\"a, .b\"", "\"c.d\"", "\".a:hover\"", "\".b\"", "\"&-x\"", "\".a > .b\"", "(.a .b)", "\"d\"", "\"%p\"", "\".a.b\"", "\"[\"", "1", "\"::before\"", "\":not(.a)\""]),
        K::Name => one_of(&["\"red\"", "\"nth\"", "\"foo\"", "\"x\"", "\"m\"", "\"nope\"", "foo", "\"nth2\"", "\"str-length\"", "\"length\"", "1"]),
        K::Feature => one_of(&["\"global-variable-shadowing\"", "\"extend-selector-pseudoclass\"", "\"units-level-3\"", "\"at-error\"", "\"custom-property\"", "\"foo\"", "at-error", "1"]),
    }
}

fn args_for(i: usize) -> BoxedStrategy<Case> {
    let pr = &PAIRS[i];
    let n_params = pr.params.len();
    let declared: Vec<BoxedStrategy<String>> = pr.params.iter().map(|(_, k)| kind(*k)).collect();
    let rest = match pr.rest {
        Some(K::NumFam) => {
            // one unit family per call, so that math.min and the css-aware global min agree on the domain
            (one_of(&["", "px", "%"]), proptest::collection::vec((-40i32..=40, 0usize..3), 1..4))
                .prop_map(|(u, vs)| {
                    vs.into_iter()
                        .map(|(v, alt)| {
                            let unit = match (u.as_str(), alt) {
                                ("px", 1) => "in",
                                ("px", 2) => "pt",
                                (u, _) => u,
                            };
                            format!("{}{unit}", v as f64 / 4.0)
                        })
                        .collect::<Vec<_>>()
                })
                .boxed()
        }
        Some(k) => proptest::collection::vec(kind(k), 0..3).boxed(),
        None => Just(vec![]).boxed(),
    };
    let kw: Vec<BoxedStrategy<Option<(String, String)>>> = pr.kw.iter().map(|(n, k)| (any::<bool>(), kind(*k)).prop_map(move |(on, v)| if on { Some((n.to_string(), v)) } else { None }).boxed()).collect();
    (declared, rest, kw, pr.required..=n_params, 0..=n_params).prop_map(move |(mut args, rest, kw, n, split)| {
        // rest arguments need every declared parameter
        let n = if rest.is_empty() { n } else { n_params };
        args.truncate(n);
        Case { pair: i, args, rest, kw: kw.into_iter().flatten().collect(), split: split.min(n) }
    })
    .boxed()
}

fn cases() -> impl Strategy<Value = Case> {
    (0..PAIRS.len()).prop_flat_map(args_for)
}

#[derive(Clone, Copy, Debug, PartialEq)]
enum Caller {
    Global,
    Module,
    CallGlobal,
    CallModule,
}

impl Case {
    /// argument list with the first `positional` declared parameters by position and the others by name;
    /// None when that is not a legal call (named arguments before rest arguments)
    fn arglist(&self, positional: usize) -> Option<String> {
        let pr = &PAIRS[self.pair];
        if positional < self.args.len() && !self.rest.is_empty() {
            return None;
        }
        let mut parts: Vec<String> = vec![];
        for (i, a) in self.args.iter().enumerate() {
            if i < positional {
                parts.push(a.clone());
            }
        }
        parts.extend(self.rest.iter().cloned());
        for (i, a) in self.args.iter().enumerate() {
            if i >= positional {
                parts.push(format!("${}: {a}", pr.params[i].0));
            }
        }
        for (n, v) in &self.kw {
            parts.push(format!("${n}: {v}"));
        }
        Some(parts.join(", "))
    }
    fn call(&self, who: Caller, args: &str) -> String {
        let pr = &PAIRS[self.pair];
        let sep = if args.is_empty() { "" } else { ", " };
        match who {
            Caller::Global => format!("{}({args})", pr.global),
            Caller::Module => format!("{}.{}({args})", pr.module, pr.member),
            Caller::CallGlobal => format!("meta.call(meta.get-function(\"{}\"){sep}{args})", pr.global),
            Caller::CallModule => format!("meta.call(meta.get-function(\"{}\", $module: \"{}\"){sep}{args})", pr.member, pr.module),
        }
    }
}

/// result of one form: Ok(inspect text) or Err(first line of the message without the call's own name)
fn eval(expr: &str) -> Result<Result<String, String>, String> {
    match rs::inspect_with(PRELUDE, expr) {
        Ok(s) => Ok(Ok(s)),
        // a panic is C01's business; here it counts as a failed call, which the other forms must share
        Err(Res::Panic(m)) => Ok(Err(format!("panic: {m}"))),
        Err(e) => Ok(Err(e.brief())),
    }
}

impl Prop for C34 {
    type Case = Case;
    const ID: &'static str = "C34";
    fn new() -> Self {
        C34
    }
    fn rule(&self) -> String {
        format!("{} global/module pairs from the Sass module documentation (string 8, list 9, map 6, math 10, color 16, selector 8, meta 8), each with generated arguments for its documented parameters (valid and invalid values: wrong types, out-of-range indices, ties at .5, units), optional parameters present or absent, rest arguments and keyword-only arguments. Forms: global and module call with all arguments by position; both with all declared parameters by name; both with a split (first k by position, others by name); meta.call(meta.get-function(global)) and meta.call(meta.get-function(member, $module)) by position and by name. Oracle: all forms have the same ok/error status and, when ok, the same inspect() text. Non-trivial: the call succeeds in the first form and has at least one argument; distinct by case", PAIRS.len())
    }
    fn assumptions(&self) -> Vec<String> {
        vec![
            "min/max are called with numbers of one unit family: the global forms are CSS-aware and keep `min(1px, 1em)` as a calculation where math.min must fail (documented difference)".into(),
            "unique-id, random, content-exists, keywords and call itself are not in the table (non-deterministic or context-bound)".into(),
            "error messages are not compared (they name the function that was called), only the ok/error status".into(),
        ]
    }
    fn phases(&self, tier: Tier) -> Vec<Phase<Case>> {
        vec![Phase::random("pairs", cases(), tier.pick(60_000, 300_000))]
    }
    fn render(&self, c: &Case) -> serde_json::Value {
        let n = c.args.len();
        serde_json::json!({
            "global_positional": c.arglist(n).map(|a| c.call(Caller::Global, &a)),
            "module_named": c.arglist(0).map(|a| c.call(Caller::Module, &a)),
            "split": c.split,
        })
    }
    fn check(&self, c: &Case) -> Verdict {
        let pr = &PAIRS[c.pair];
        let n = c.args.len();
        let mut forms: Vec<String> = vec![];
        if let Some(a) = c.arglist(n) {
            for who in [Caller::Global, Caller::Module, Caller::CallGlobal, Caller::CallModule] {
                forms.push(c.call(who, &a));
            }
        }
        if n > 0 {
            if let Some(a) = c.arglist(0) {
                for who in [Caller::Global, Caller::Module, Caller::CallModule] {
                    forms.push(c.call(who, &a));
                }
            }
            if c.split > 0 && c.split < n {
                if let Some(a) = c.arglist(c.split) {
                    for who in [Caller::Global, Caller::Module, Caller::CallGlobal] {
                        forms.push(c.call(who, &a));
                    }
                }
            }
        }
        if forms.is_empty() {
            return Verdict::discard("no legal form");
        }
        let mut results: Vec<Result<String, String>> = vec![];
        for f in &forms {
            match eval(f) {
                Ok(r) => results.push(r),
                Err(p) => return Verdict::fail(format!("panic in {f}: {p}")),
            }
        }
        let first = &results[0];
        for (f, r) in forms.iter().zip(results.iter()).skip(1) {
            let same = match (first, r) {
                (Ok(a), Ok(b)) => a == b,
                (Err(_), Err(_)) => true,
                _ => false,
            };
            if !same {
                let show = |r: &Result<String, String>| match r {
                    Ok(s) => format!("`{s}`"),
                    Err(e) => format!("error ({})", e.chars().take(120).collect::<String>()),
                };
                return Verdict::fail(format!("{} gives {}, but {} gives {}", forms[0], show(first), f, show(r)));
            }
        }
        let ok = first.is_ok();
        Verdict::pass(ok && (n > 0 || !c.rest.is_empty())).class(pr.module).class_if(!ok, "error-in-all-forms").class_if(forms.len() > 4, "named-forms")
    }
}
