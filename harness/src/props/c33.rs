//! C33 Emitted color text denotes the computed color.

use super::c31::{color, Col};
use crate::csscolor::{self, Rgba};
use crate::cssread;
use crate::engine::{Phase, Prop, Tier, Verdict};
use crate::rs::{self, Opts, Res, St};
use proptest::prelude::*;
use serde::{Deserialize, Serialize};

pub struct C33;

#[derive(Clone, Debug, Serialize, Deserialize)]
pub enum Expr {
    Base(Col),
    /// amount in tenths of a percent
    Lighten(Col, u32),
    Darken(Col, u32),
    Desaturate(Col, u32),
    AdjustHue(Col, i32),
    Invert(Col),
    Complement(Col),
    Grayscale(Col),
    /// amount in thousandths
    Opacify(Col, u32),
    Transparentize(Col, u32),
    /// weight in percent
    Mix(Col, Col, u32),
    /// color.change($alpha)
    ChangeAlpha(Col, u32),
    /// rgba($color, $alpha)
    RgbaOf(Col, u32),
}

#[derive(Clone, Debug, Serialize, Deserialize)]
pub struct Case {
    pub e: Expr,
    pub precision: usize,
}

fn f(x: f64) -> String {
    let s = format!("{x:.6}");
    s.trim_end_matches('0').trim_end_matches('.').to_string()
}

fn hsl_op(c: &Rgba, op: impl Fn(f64, f64, f64) -> (f64, f64, f64)) -> Rgba {
    let [h, s, l] = csscolor::rgb_to_hsl(c[0], c[1], c[2]);
    let (h, s, l) = op(h, s, l);
    let rgb = csscolor::hsl_to_rgb(h, s.clamp(0.0, 1.0), l.clamp(0.0, 1.0));
    [rgb[0], rgb[1], rgb[2], c[3]]
}

impl Expr {
    pub fn text(&self) -> String {
        match self {
            Expr::Base(c) => c.text.clone(),
            Expr::Lighten(c, a) => format!("lighten({}, {}%)", c.text, f(*a as f64 / 10.0)),
            Expr::Darken(c, a) => format!("darken({}, {}%)", c.text, f(*a as f64 / 10.0)),
            Expr::Desaturate(c, a) => format!("desaturate({}, {}%)", c.text, f(*a as f64 / 10.0)),
            Expr::AdjustHue(c, d) => format!("adjust-hue({}, {d}deg)", c.text),
            Expr::Invert(c) => format!("invert({})", c.text),
            Expr::Complement(c) => format!("complement({})", c.text),
            Expr::Grayscale(c) => format!("grayscale({})", c.text),
            Expr::Opacify(c, a) => format!("opacify({}, {})", c.text, f(*a as f64 / 1000.0)),
            Expr::Transparentize(c, a) => format!("transparentize({}, {})", c.text, f(*a as f64 / 1000.0)),
            Expr::Mix(a, b, w) => format!("mix({}, {}, {w}%)", a.text, b.text),
            Expr::ChangeAlpha(c, a) => format!("color.change({}, $alpha: {})", c.text, f(*a as f64 / 1000.0)),
            Expr::RgbaOf(c, a) => format!("rgba({}, {})", c.text, f(*a as f64 / 1000.0)),
        }
    }
    /// the reference colour
    pub fn reference(&self) -> Rgba {
        match self {
            Expr::Base(c) => c.rgba,
            Expr::Lighten(c, a) => hsl_op(&c.rgba, |h, s, l| (h, s, l + *a as f64 / 1000.0)),
            Expr::Darken(c, a) => hsl_op(&c.rgba, |h, s, l| (h, s, l - *a as f64 / 1000.0)),
            Expr::Desaturate(c, a) => hsl_op(&c.rgba, |h, s, l| (h, s - *a as f64 / 1000.0, l)),
            Expr::AdjustHue(c, d) => hsl_op(&c.rgba, |h, s, l| (h + *d as f64, s, l)),
            Expr::Complement(c) => hsl_op(&c.rgba, |h, s, l| (h + 180.0, s, l)),
            Expr::Grayscale(c) => hsl_op(&c.rgba, |h, _, l| (h, 0.0, l)),
            Expr::Invert(c) => [255.0 - c.rgba[0], 255.0 - c.rgba[1], 255.0 - c.rgba[2], c.rgba[3]],
            Expr::Opacify(c, a) => [c.rgba[0], c.rgba[1], c.rgba[2], (c.rgba[3] + *a as f64 / 1000.0).min(1.0)],
            Expr::Transparentize(c, a) => [c.rgba[0], c.rgba[1], c.rgba[2], (c.rgba[3] - *a as f64 / 1000.0).max(0.0)],
            Expr::ChangeAlpha(c, a) | Expr::RgbaOf(c, a) => [c.rgba[0], c.rgba[1], c.rgba[2], *a as f64 / 1000.0],
            Expr::Mix(a, b, w) => {
                // the Sass mix algorithm
                let p = *w as f64 / 100.0;
                let wn = p * 2.0 - 1.0;
                let ad = a.rgba[3] - b.rgba[3];
                let comb = if wn * ad == -1.0 { wn } else { (wn + ad) / (1.0 + wn * ad) };
                let w1 = (comb + 1.0) / 2.0;
                let w2 = 1.0 - w1;
                [a.rgba[0] * w1 + b.rgba[0] * w2, a.rgba[1] * w1 + b.rgba[1] * w2, a.rgba[2] * w1 + b.rgba[2] * w2, a.rgba[3] * p + b.rgba[3] * (1.0 - p)]
            }
        }
    }
    /// hsl adjustments of a grey: the result depends on hue and saturation that the colour's rgba does not determine
    /// (Sass keeps the hsl channels of an hsl() colour), so the reference does not judge these
    fn reference_applies(&self) -> bool {
        match self {
            Expr::Lighten(c, _) | Expr::Darken(c, _) | Expr::Desaturate(c, _) | Expr::AdjustHue(c, _) | Expr::Complement(c) | Expr::Grayscale(c) => {
                let [_, s, l] = csscolor::rgb_to_hsl(c.rgba[0], c.rgba[1], c.rgba[2]);
                s > 1e-9 && l > 1e-9 && l < 1.0 - 1e-9
            }
            _ => true,
        }
    }
    fn kind(&self) -> &'static str {
        match self {
            Expr::Base(_) => "constructor",
            Expr::Lighten(..) | Expr::Darken(..) | Expr::Desaturate(..) | Expr::AdjustHue(..) | Expr::Complement(_) | Expr::Grayscale(_) => "hsl-adjusted",
            Expr::Invert(_) => "inverted",
            Expr::Opacify(..) | Expr::Transparentize(..) | Expr::ChangeAlpha(..) | Expr::RgbaOf(..) => "alpha-adjusted",
            Expr::Mix(..) => "mixed",
        }
    }
}

fn exprs() -> BoxedStrategy<Expr> {
    let col = || color().prop_filter("hsl arguments in range (C31 finding)", |c| !c.hsl_out_of_range);
    let amount = || prop_oneof![2 => (0u32..=100).prop_map(|v| v * 10), 1 => 0u32..=1000];
    let alpha = || prop_oneof![2 => (0u32..=10).prop_map(|v| v * 100), 1 => 0u32..=1000];
    prop_oneof![
        8 => col().prop_map(Expr::Base),
        1 => (col(), amount()).prop_map(|(c, a)| Expr::Lighten(c, a)),
        1 => (col(), amount()).prop_map(|(c, a)| Expr::Darken(c, a)),
        1 => (col(), amount()).prop_map(|(c, a)| Expr::Desaturate(c, a)),
        1 => (col(), -720i32..=720).prop_map(|(c, a)| Expr::AdjustHue(c, a)),
        1 => col().prop_map(Expr::Invert),
        1 => col().prop_map(Expr::Complement),
        1 => col().prop_map(Expr::Grayscale),
        1 => (col(), alpha()).prop_map(|(c, a)| Expr::Opacify(c, a)),
        1 => (col(), alpha()).prop_map(|(c, a)| Expr::Transparentize(c, a)),
        2 => (col(), col(), 0u32..=100).prop_map(|(a, b, w)| Expr::Mix(a, b, w)),
        1 => (col(), alpha()).prop_map(|(c, a)| Expr::ChangeAlpha(c, a)),
        1 => (col(), alpha()).prop_map(|(c, a)| Expr::RgbaOf(c, a)),
    ]
    .boxed()
}

/// every rgb byte triple whose hex text could be shortened or named: all 4096 short-hex colours and all named colours,
/// plus the neighbours where exactly one nibble differs
fn byte_grid() -> Vec<Case> {
    let mut out = vec![];
    let mk = |r: u32, g: u32, b: u32| Case {
        e: Expr::Base(Col { text: format!("rgb({r}, {g}, {b})"), rgba: [r as f64, g as f64, b as f64, 1.0], origin: "rgb".into(), hsl_out_of_range: false }),
        precision: 10,
    };
    for v in 0u32..4096 {
        let (r, g, b) = ((v >> 8) * 17, ((v >> 4) & 15) * 17, (v & 15) * 17);
        out.push(mk(r, g, b));
    }
    // each channel through all 256 values with the other two on a short-hex value
    for x in 0u32..256 {
        for (o1, o2) in [(0u32, 0u32), (0x11, 0xee), (0xff, 0x88)] {
            out.push(mk(x, o1, o2));
            out.push(mk(o1, x, o2));
            out.push(mk(o1, o2, x));
        }
    }
    for (_, v) in csscolor::NAMED {
        let (r, g, b) = ((v >> 16) & 255, (v >> 8) & 255, v & 255);
        out.push(mk(r, g, b));
        out.push(mk(r ^ 1, g, b));
        out.push(mk(r, g, b ^ 16));
    }
    out
}

impl Prop for C33 {
    type Case = Case;
    const ID: &'static str = "C33";
    fn new() -> Self {
        C33
    }
    fn rule(&self) -> String {
        "a colour expression: a constructor from the C31 generator (hex 3/4/6/8, names, rgb/rgba, hsl/hsla, hwb, alpha), or lighten/darken/desaturate/adjust-hue/complement/grayscale/invert/opacify/transparentize/color.change($alpha)/rgba($color, $alpha)/mix applied to such colours; printed as a declaration value in expanded and compressed style at precision 3..10 (mostly 10). Oracle: the emitted value text is decoded by the harness's CSS colour reader (names, transparent, hex, rgb()/rgba(), hsl()/hsla()) and must equal the reference colour (CSS Color 4 conversions and the Sass mix formula applied to the reference rgba of the operands) within 10^(1-precision) + 1e-6 on the 0..255 channels and 10^-precision on alpha; both styles must decode to colours within that distance of each other. Exhaustive part: all 4096 short-hex byte triples, each channel through all 256 values beside short-hex neighbours, and every named colour with one-bit neighbours. Non-trivial: the text is not the source text; distinct by case".into()
    }
    fn assumptions(&self) -> Vec<String> {
        vec!["hsl() arguments outside 0%..100% are excluded (C31's open finding: rsass prints them unclamped as the pinned sass-spec tests require)".into()]
    }
    fn phases(&self, tier: Tier) -> Vec<Phase<Case>> {
        let prec = prop_oneof![4 => Just(10usize), 1 => 3usize..=10];
        vec![
            Phase::enumerate("byte-grid", byte_grid().into_iter()),
            Phase::random("expressions", (exprs(), prec).prop_map(|(e, precision)| Case { e, precision }), tier.pick(100_000, 2_000_000)),
        ]
    }
    fn render(&self, c: &Case) -> serde_json::Value {
        serde_json::json!({"expr": c.e.text(), "precision": c.precision, "reference_rgba": c.e.reference()})
    }
    fn check(&self, c: &Case) -> Verdict {
        let text = c.e.text();
        let want = c.e.reference();
        let src = format!("{}a{{b:{text}}}\n", rs::USES);
        let ctol = 10f64.powi(1 - c.precision as i32) + 1e-6;
        let atol = 10f64.powi(-(c.precision as i32)) + 1e-9;
        let judged = c.e.reference_applies();
        let mut decoded: Vec<(String, Rgba)> = vec![];
        for style in [St::Expanded, St::Compressed] {
            let o = Opts { style, precision: c.precision, ..Default::default() };
            let out = match rs::compile(src.as_bytes(), &o) {
                Res::Ok(b) => String::from_utf8_lossy(&b).to_string(),
                Res::Panic(m) => return Verdict::fail(format!("panic for {text}: {m}")),
                e => return Verdict::fail(format!("{text} does not compile: {}", e.brief().chars().take(200).collect::<String>())),
            };
            let decls = match cssread::parse_sheet(cssread::strip_marker(&out)) {
                Ok(n) => cssread::flat_decls(&n),
                Err(e) => return Verdict::fail(format!("output for {text} is not readable CSS ({e}): {out:?}")),
            };
            let [(_, name, value)] = decls.as_slice() else {
                return Verdict::fail(format!("output for {text} is not one declaration: {out:?}"));
            };
            if name != "b" {
                return Verdict::fail(format!("output for {text}: {out:?}"));
            }
            let Some(got) = csscolor::parse_text(value) else {
                return Verdict::fail(format!("{text} is emitted ({style:?}) as {value:?}, which is not hex, a colour name, rgb()/rgba() or hsl()/hsla()"));
            };
            for i in 0..4 {
                let tol = if i == 3 { atol } else { ctol };
                if (judged || i == 3) && (got[i] - want[i]).abs() > tol {
                    return Verdict::fail(format!("{text} is emitted ({style:?}, precision {}) as {value:?} = rgba{got:?}, but the colour is rgba{want:?}", c.precision));
                }
            }
            decoded.push((value.clone(), got));
        }
        for i in 0..4 {
            let tol = 2.0 * if i == 3 { atol } else { ctol };
            if (decoded[0].1[i] - decoded[1].1[i]).abs() > tol {
                return Verdict::fail(format!("{text} is emitted as {:?} = rgba{:?} in expanded and {:?} = rgba{:?} in compressed style", decoded[0].0, decoded[0].1, decoded[1].0, decoded[1].1));
            }
        }
        let changed = decoded.iter().any(|(t, _)| t != &text);
        Verdict::pass(changed).class(c.e.kind()).class_if(!judged, "grey-base-styles-compared-only").class_if(decoded[0].0 != decoded[1].0, "styles-differ").class_if(decoded[1].0.starts_with('#'), "compressed-hex").class_if(decoded[1].0.bytes().all(|b| b.is_ascii_alphabetic()), "compressed-name")
    }
}
