//! C19 Nested selectors combine as Sass specifies.

use crate::cssread::{self, Node};
use crate::engine::{Phase, Prop, Tier, Verdict};
use crate::gen::one_of;
use crate::rs::{self, Opts, Res};
use crate::selnorm;
use proptest::prelude::*;
use serde::{Deserialize, Serialize};

pub struct C19;

#[derive(Clone, Debug, Serialize, Deserialize, PartialEq)]
pub enum Inner {
    /// a complex selector without `&`, optionally with a leading combinator
    Plain { lead: Option<char>, text: String },
    /// `&<suffix>[ rest]`, e.g. `&-x`, `&.k`, `&:hover > e`
    Suffix { suffix: String, rest: String },
    /// `<pre> &` or `<pre> <comb> &`
    Trailing { pre: String, comb: Option<char> },
    /// `<pre>:<pseudo>(&<extra>)`, e.g. `:not(&)`, `q:is(&, .z)`
    InPseudo { pre: String, pseudo: String, extra: String },
    /// `& <comb> &`
    Double { comb: char },
}

#[derive(Clone, Debug, Serialize, Deserialize)]
pub struct Case {
    /// levels[0] is the outermost rule (Plain selectors without leading combinator)
    pub levels: Vec<Vec<Inner>>,
}

fn text(i: &Inner) -> String {
    match i {
        Inner::Plain { lead, text } => match lead {
            Some(c) => format!("{c} {text}"),
            None => text.clone(),
        },
        Inner::Suffix { suffix, rest } => format!("&{suffix}{rest}"),
        Inner::Trailing { pre, comb } => match comb {
            Some(c) => format!("{pre} {c} &"),
            None => format!("{pre} &"),
        },
        Inner::InPseudo { pre, pseudo, extra } => format!("{pre}:{pseudo}(&{extra})"),
        Inner::Double { comb } => {
            if *comb == ' ' { "& &".to_string() } else { format!("& {comb} &") }
        }
    }
}

pub fn source(c: &Case) -> String {
    let mut s = String::new();
    for (l, sels) in c.levels.iter().enumerate() {
        s.push_str(&"  ".repeat(l));
        s.push_str(&sels.iter().map(text).collect::<Vec<_>>().join(", "));
        s.push_str(" {\n");
        s.push_str(&"  ".repeat(l + 1));
        s.push_str(&format!("p{l}: {l};\n"));
    }
    for l in (0..c.levels.len()).rev() {
        s.push_str(&"  ".repeat(l));
        s.push_str("}\n");
    }
    s
}

/// reference resolution of one nesting step; the bool says "compare as a multiset" (several `&`)
fn resolve(outer: &[String], inner: &[Inner]) -> (Vec<String>, bool) {
    let mut per_inner: Vec<Vec<String>> = vec![];
    let mut multiset = false;
    for i in inner {
        per_inner.push(match i {
            Inner::Plain { lead, text } => outer
                .iter()
                .map(|o| match lead {
                    Some(c) => format!("{o} {c} {text}"),
                    None => format!("{o} {text}"),
                })
                .collect(),
            Inner::Suffix { suffix, rest } => outer.iter().map(|o| format!("{o}{suffix}{rest}")).collect(),
            Inner::Trailing { pre, comb } => outer
                .iter()
                .map(|o| match comb {
                    Some(c) => format!("{pre} {c} {o}"),
                    None => format!("{pre} {o}"),
                })
                .collect(),
            Inner::InPseudo { pre, pseudo, extra } => {
                // `&` stands for every outer selector inside the argument; what follows it either continues the
                // same complex selector (` > y`) or is another member of the list (`, .z`)
                let members = if extra.starts_with(',') { format!("{}{extra}", outer.join(", ")) } else { outer.iter().map(|o| format!("{o}{extra}")).collect::<Vec<_>>().join(", ") };
                vec![format!("{pre}:{pseudo}({members})")]
            }
            Inner::Double { comb } => {
                multiset = true;
                let mut v = vec![];
                for a in outer {
                    for b in outer {
                        v.push(if *comb == ' ' { format!("{a} {b}") } else { format!("{a} {comb} {b}") });
                    }
                }
                v
            }
        });
    }
    // results are taken round-robin: the first of every inner selector, then the second, ...
    let mut out = vec![];
    let n = per_inner.iter().map(|v| v.len()).max().unwrap_or(0);
    for k in 0..n {
        for v in &per_inner {
            if let Some(x) = v.get(k) {
                out.push(x.clone());
            }
        }
    }
    (out, multiset)
}

fn outer_compound() -> BoxedStrategy<String> {
    // compounds that end in a name, so that `&-x` style suffixes stay valid
    one_of(&["a", "b", "div", ".c", ".d", "#i", "a.c", "p.d.e", "[k].c", ":hover.c", "li.z", "*.c", ".c.d"])
}

fn plain_complex() -> BoxedStrategy<String> {
    (proptest::collection::vec((outer_compound(), one_of(&[" ", " ", " > ", " + ", " ~ "])), 0..2), outer_compound()).prop_map(|(pre, last)| {
        let mut s = String::new();
        for (c, k) in pre {
            s.push_str(&c);
            s.push_str(&k);
        }
        s.push_str(&last);
        s
    })
    .boxed()
}

fn inner() -> BoxedStrategy<Inner> {
    prop_oneof![
        5 => (proptest::option::weighted(0.2, proptest::sample::select(&['>', '+', '~'][..])), plain_complex()).prop_map(|(lead, text)| Inner::Plain { lead, text }),
        4 => (one_of(&["-x", "__e", ".k", ":hover", "[t]", ".k.j", ":not(.n)", "-x.k", ":host(.z)", ":host-context(.y)", ":host"]), one_of(&["", "", " e", " > e", " ~ .f"])).prop_map(|(suffix, rest)| Inner::Suffix { suffix, rest }),
        2 => (plain_complex(), proptest::option::weighted(0.4, proptest::sample::select(&['>', '+', '~'][..]))).prop_map(|(pre, comb)| Inner::Trailing { pre, comb }),
        2 => (one_of(&["", "q", ".w"]), one_of(&["not", "is", "where", "has", "matches"]), one_of(&["", ", .z", " > y", " .v"])).prop_map(|(pre, pseudo, extra)| Inner::InPseudo { pre, pseudo, extra }),
        1 => proptest::sample::select(&[' ', '+', '>', '~'][..]).prop_map(|comb| Inner::Double { comb }),
    ]
    .boxed()
}

fn cases() -> impl Strategy<Value = Case> {
    let top = proptest::collection::vec(plain_complex().prop_map(|text| Inner::Plain { lead: None, text }), 1..4);
    (top, proptest::collection::vec(proptest::collection::vec(inner(), 1..4), 1..4)).prop_map(|(t, mut rest)| {
        let mut levels = vec![t];
        levels.append(&mut rest);
        Case { levels }
    })
}

impl Prop for C19 {
    type Case = Case;
    const ID: &'static str = "C19";
    fn new() -> Self {
        C19
    }
    fn rule(&self) -> String {
        "nests of 2..4 style rules; every level is a list of 1..3 complex selectors built from compounds with type, class, id, attribute and pseudo-class selectors and all combinators; inner levels use selectors without `&` (also with a leading combinator), `&` with a suffix (`&-x`, `&__e`, `&.k`, `&:hover`, `&[t]`, `&:host(.z)`, followed or not by more compounds), trailing `&` (`x &`, `x > &`), `&` inside :not/:is/:where/:has/:matches arguments (alone or with other members) and two `&` (`& &`, `& + &`); every level carries a declaration. Oracle: reference resolution (outer-major combination, substitution of `&`, whole outer list inside pseudo arguments), compared with the emitted selectors after the independent canonicaliser (whitespace, order of simple selectors in a compound); with two `&` the results are compared as a multiset; the declaration of level k must sit under the k-th resolved selector, in order. Non-trivial: a level with >= 2 selectors or an `&`; distinct by nest".into()
    }
    fn assumptions(&self) -> Vec<String> {
        vec!["outer compounds end in a name, so `&-x` suffixes are valid; pseudo-elements are not generated in outer levels".into(), "the order of simple selectors inside one compound is not compared (rsass prints compounds in a canonical order)".into()]
    }
    fn phases(&self, tier: Tier) -> Vec<Phase<Case>> {
        vec![Phase::random("nests", cases(), tier.pick(30_000, 1_500_000))]
    }
    fn render(&self, c: &Case) -> serde_json::Value {
        serde_json::json!({"src": source(c)})
    }
    fn check(&self, c: &Case) -> Verdict {
        let src = source(c);
        // expected selector per level
        let mut want: Vec<(Vec<String>, bool)> = vec![];
        let mut cur: Vec<String> = c.levels[0].iter().map(text).collect();
        want.push((cur.clone(), false));
        let mut multi_seen = false;
        // known deviation: rsass keeps a compound in a canonical order (type # . [] :), so an identifier suffix
        // (`&-x`) lands on the pseudo-class or attribute that is printed last instead of on the last selector written
        let mut reorder_risk = false;
        for lvl in &c.levels[1..] {
            if lvl.iter().any(|i| matches!(i, Inner::Suffix { suffix, .. } if suffix.starts_with('-') || suffix.starts_with('_'))) {
                let lasts: Vec<String> = cur.iter().filter_map(|o| selnorm::complex_parts(o).last().cloned()).collect();
                // the written parent must end in a name for an identifier suffix to be valid Sass at all
                if cur.iter().any(|o| !o.chars().last().is_some_and(|c| c.is_alphanumeric() || c == '-' || c == '_')) {
                    return Verdict::discard("domain: identifier suffix after a parent that does not end in a name");
                }
                reorder_risk |= lasts.iter().any(|last| last.contains(':') || last.contains('['));
                // ... and a repeated simple selector is stored once, which also changes which one is last
                reorder_risk |= cur.iter().any(|o| {
                    let last = o.rsplit([' ', '>', '+', '~']).next().unwrap_or("");
                    let mut v = selnorm::simples(last);
                    let n = v.len();
                    v.sort();
                    v.dedup();
                    v.len() < n
                });
            }
            let (r, multi) = resolve(&cur, lvl);
            multi_seen |= multi;
            cur = r;
            want.push((cur.clone(), multi_seen));
        }
        let out = match rs::compile(src.as_bytes(), &Opts::default()) {
            Res::Ok(o) => String::from_utf8_lossy(&o).to_string(),
            Res::Panic(m) => {
                return if rs_known_panic(&m) && reorder_risk { Verdict::known("C19-suffix-after-reordered-compound", format!("panic: {m}\n{src}")) } else { Verdict::fail(format!("panic: {m}\n{src}")) };
            }
            Res::Err { text, .. } => return Verdict::fail(format!("a valid nest fails: {}\n{src}", text.lines().next().unwrap_or(""))),
        };
        let nodes = match cssread::parse_sheet(&out) {
            Ok(n) => n,
            Err(e) => return Verdict::fail(format!("unreadable output ({e}): {out:?}")),
        };
        let rules: Vec<(String, Vec<String>)> = nodes.iter().filter_map(|n| match n { Node::Rule { prelude, body } => Some((prelude.clone(), body.iter().filter_map(|d| match d { Node::Decl { name, .. } => Some(name.clone()), _ => None }).collect())), _ => None }).collect();
        if rules.len() != want.len() {
            return Verdict::fail(format!("expected {} rules, got {}: {out:?}\n{src}", want.len(), rules.len()));
        }
        for (k, ((sel, decls), (w, multi))) in rules.iter().zip(want.iter()).enumerate() {
            if decls != &vec![format!("p{k}")] {
                return Verdict::fail(format!("rule {k} holds declarations {decls:?}, expected [p{k}]\n{out}\n{src}"));
            }
            let got_list: Vec<String> = selnorm::split_list(sel).iter().map(|s| selnorm::canon_complex(s)).collect();
            let want_list: Vec<String> = w.iter().map(|s| selnorm::canon_complex(s)).collect();
            let same = if *multi {
                let (mut a, mut b) = (got_list.clone(), want_list.clone());
                a.sort();
                b.sort();
                a == b
            } else {
                got_list == want_list
            };
            if !same {
                let msg = format!("level {k}: emitted selector {:?}, Sass gives {:?}\n{src}", got_list.join(", "), want_list.join(", "));
                return if reorder_risk { Verdict::known("C19-suffix-after-reordered-compound", msg) } else { Verdict::fail(msg) };
            }
        }
        let nontrivial = c.levels.iter().any(|l| l.len() >= 2) || c.levels.iter().flatten().any(|i| !matches!(i, Inner::Plain { .. }));
        Verdict::pass(nontrivial).class(format!("{} levels", c.levels.len())).class_if(multi_seen, "two-parent-refs")
    }
}

fn rs_known_panic(m: &str) -> bool {
    m.contains("css/selectors/selector.rs") && m.contains("called `Result::unwrap()` on an `Err` value")
}
