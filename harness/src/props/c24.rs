//! C24 Selector unify/extend/replace/nest/append obey their algebra.

use super::c23::{complex, show, show_list, Cx};
use crate::cssread::{self, Node};
use crate::engine::{Phase, Prop, Tier, Verdict};
use crate::gen::one_of;
use crate::rs::{self, Opts, Res};
use crate::selnorm;
use proptest::prelude::*;
use serde::{Deserialize, Serialize};

pub struct C24;

#[derive(Clone, Debug, Serialize, Deserialize)]
pub enum Case {
    Unify { a: Vec<Cx>, b: Vec<Cx> },
    Extend { s: Vec<Cx>, x: String, y: Vec<Cx> },
    Replace { s: Vec<Cx>, y: Vec<Cx> },
    Nest { a: Vec<Cx>, b: Vec<Cx> },
    Append { a: Vec<Cx>, suffix: String },
}

fn list(n: std::ops::Range<usize>) -> impl Strategy<Value = Vec<Cx>> {
    proptest::collection::vec(complex(), n)
}

/// a second selector related to the first one: shares compounds, so that unification often succeeds
fn related(a: &Cx, extra: &[String], drop_front: usize, comb: char) -> Cx {
    let k = drop_front.min(a.comps.len() - 1);
    let mut comps: Vec<String> = a.comps[k..].to_vec();
    let mut combs: Vec<char> = a.combs[k..].to_vec();
    for (i, e) in extra.iter().enumerate() {
        let at = i % comps.len();
        let c = &mut comps[at];
        match c.find("::") {
            Some(p) => c.insert_str(p, e),
            None => c.push_str(e),
        }
    }
    if comb != '-' {
        comps.insert(0, ".pre".into());
        combs.insert(0, comb);
    }
    Cx { comps, combs }
}

fn cases() -> impl Strategy<Value = Case> {
    let add = || proptest::collection::vec(one_of(&[".b", ".u", "[z]", ":hover", ".c"]), 0..3);
    prop_oneof![
        3 => (list(1..3), list(1..3)).prop_map(|(a, b)| Case::Unify { a, b }),
        4 => (complex(), add(), 0usize..3, proptest::sample::select(&['-', ' ', '>', '~', '+'][..])).prop_map(|(a, extra, k, comb)| {
            let b = related(&a, &extra, k, comb);
            Case::Unify { a: vec![a], b: vec![b] }
        }),
        3 => (list(1..4), one_of(&[".b", ".c", "a", ".x", "#i", ":hover", "[k]", ".b.c", "%p", ".c, .x", ".x, .c", ".b, .c", ".d, .b, .zz", "a, .y", ".zz, .b"]), list(1..3)).prop_map(|(s, x, y)| Case::Extend { s, x, y }),
        2 => (list(1..4), list(1..3)).prop_map(|(s, y)| Case::Replace { s, y }),
        3 => (list(1..3), list(1..3)).prop_map(|(a, b)| Case::Nest { a, b }),
        3 => (list(1..3), one_of(&[".c", "-x", ":hover", "[k]", ".c.d", "__e", ":not(.q)"])).prop_map(|(a, suffix)| Case::Append { a, suffix }),
    ]
}

/// text of a selector-valued expression ("" for null)
fn sel_text(expr: &str) -> Result<String, Res> {
    let v = rs::probes(&[format!("\"#{{{expr}}}\"")])?;
    Ok(v.into_iter().next().flatten().unwrap_or_default().trim_matches('"').to_string())
}

fn q(s: &str) -> String {
    format!("\"{}\"", s.replace('"', "\\\""))
}

/// selector of the innermost rule emitted for `src`
fn emitted(src: &str) -> Result<String, Res> {
    let r = rs::compile(src.as_bytes(), &Opts::default());
    let Some(out) = r.ok_str() else { return Err(r) };
    match cssread::parse_sheet(&out) {
        Ok(nodes) => nodes.iter().rev().find_map(|n| match n { Node::Rule { prelude, .. } => Some(prelude.clone()), _ => None }).ok_or(Res::Err { kind: "frame", text: format!("no rule in {out:?}") }),
        Err(e) => Err(Res::Err { kind: "frame", text: e }),
    }
}

impl Prop for C24 {
    type Case = Case;
    const ID: &'static str = "C24";
    fn new() -> Self {
        C24
    }
    fn rule(&self) -> String {
        "selector lists as for C23. unify(a, b) for random pairs and for pairs built to overlap (b shares a's trailing compounds, with extra classes and an extra leading ancestor/parent/sibling): when the result is not null, a and b must each be a superselector of every complex selector in it (judged with both inputs in one combinator family, hierarchical or sibling: is-superselector is syntactic and does not relate the two). extend(s, x, y), x a simple selector, a compound or a list of 2..3 extendees: s's complex selectors must occur in the result in order. replace(s, .fresh, y) must equal parse(s). nest(a, b) must equal the selector emitted for `a { b { x: y } }`, append(a, suffix) the one for `a { &suffix { x: y } }` for suffixes .c, -x, :hover, [k], .c.d, __e, :not(.q); an error on both sides is agreement. Selectors are compared after the independent canonicaliser. Non-trivial: unify with a non-null result, or any other law on a list with >= 2 compounds in some member; distinct by case".into()
    }
    fn phases(&self, tier: Tier) -> Vec<Phase<Case>> {
        vec![Phase::random("algebra", cases(), tier.pick(40_000, 2_000_000))]
    }
    fn check(&self, c: &Case) -> Verdict {
        let truth = |v: &Option<String>| v.as_deref() == Some("true");
        match c {
            Case::Unify { a, b } => {
                // is-superselector is syntactic and cannot see that `.p > .b` matches `.p > .b + .b`: the law is only
                // judged when both inputs use one family of combinators (hierarchical or sibling)
                let fam = |l: &Vec<Cx>, sib: bool| l.iter().all(|c| c.combs.iter().all(|k| matches!(k, '+' | '~') == sib));
                let (a, b) = if (fam(a, false) && fam(b, false)) || (fam(a, true) && fam(b, true)) {
                    (a.clone(), b.clone())
                } else {
                    // map every combinator into the family of a's first one
                    let sib = a.iter().flat_map(|c| c.combs.iter()).next().is_some_and(|k| matches!(k, '+' | '~'));
                    let conv = |l: &Vec<Cx>| -> Vec<Cx> { l.iter().map(|c| Cx { comps: c.comps.clone(), combs: c.combs.iter().map(|k| match (sib, k) { (true, ' ') => '~', (true, '>') => '+', (false, '~') => ' ', (false, '+') => '>', (_, k) => *k }).collect() }).collect() };
                    (conv(a), conv(b))
                };
                // a pseudo-element changes the subject: `.b` is no superselector of `.b::before`; not part of this law
                let strip = |l: &Vec<Cx>| -> Vec<Cx> { l.iter().map(|c| Cx { comps: c.comps.iter().map(|k| { let t = k.replace("::before", "").replace("::after", ""); if t.is_empty() { ".pe".to_string() } else { t } }).collect(), combs: c.combs.clone() }).collect() };
                let (a, b) = (strip(&a), strip(&b));
                let (a, b) = (&a, &b);
                let (sa, sb) = (show_list(a), show_list(b));
                let u = match sel_text(&format!("selector.unify({}, {})", q(&sa), q(&sb))) {
                    Ok(u) => u,
                    Err(Res::Panic(m)) => return Verdict::fail(format!("panic in unify({sa:?}, {sb:?}): {m}")),
                    Err(_) => return Verdict::pass(false).class("unify-error"),
                };
                if u.is_empty() {
                    return Verdict::pass(false).class("unify-null");
                }
                let members = selnorm::split_list(&u);
                let mut probes = vec![];
                for m in &members {
                    probes.push(format!("selector.is-superselector({}, {})", q(&sa), q(m)));
                    probes.push(format!("selector.is-superselector({}, {})", q(&sb), q(m)));
                }
                let r = match rs::probes(&probes) {
                    Ok(r) => r,
                    Err(e) => return Verdict::fail(format!("unify({sa:?}, {sb:?}) = {u:?}, which is-superselector rejects: {}", e.brief().chars().take(120).collect::<String>())),
                };
                for (i, v) in r.iter().enumerate() {
                    if !truth(v) {
                        return Verdict::fail(format!("unify({sa:?}, {sb:?}) = {u:?}, but {} is not a superselector of its member {:?}", if i % 2 == 0 { "a" } else { "b" }, members[i / 2]));
                    }
                }
                Verdict::pass(true).class("unify-result")
            }
            Case::Extend { s, x, y } => {
                let (ss, sy) = (show_list(s), show_list(y));
                let e = match sel_text(&format!("selector.extend({}, {}, {})", q(&ss), q(x), q(&sy))) {
                    Ok(e) => e,
                    Err(Res::Panic(m)) => return Verdict::fail(format!("panic in extend({ss:?}, {x:?}, {sy:?}): {m}")),
                    Err(_) => return Verdict::pass(false).class("extend-error"),
                };
                let got: Vec<String> = selnorm::split_list(&e).iter().map(|m| selnorm::canon_complex(m)).collect();
                let want: Vec<String> = s.iter().map(|m| selnorm::canon_complex(&show(m))).collect();
                let mut it = got.iter();
                for w in &want {
                    if !it.any(|g| g == w) {
                        return Verdict::fail(format!("extend({ss:?}, {x:?}, {sy:?}) = {e:?} does not keep {w:?} (in order)"));
                    }
                }
                Verdict::pass(s.iter().any(|m| m.comps.len() >= 2)).class_if(got.len() > want.len(), "extend-added").class("extend")
            }
            Case::Replace { s, y } => {
                let (ss, sy) = (show_list(s), show_list(y));
                match rs::inspect(&format!("selector.replace({}, \".zzfresh\", {}) == selector.parse({})", q(&ss), q(&sy), q(&ss))) {
                    Ok(t) if t == "true" => Verdict::pass(s.iter().any(|m| m.comps.len() >= 2)).class("replace"),
                    Ok(t) => Verdict::fail(format!("replace({ss:?}, .zzfresh, {sy:?}) == parse({ss:?}) is {t}")),
                    Err(Res::Panic(m)) => Verdict::fail(format!("panic: {m}")),
                    Err(e) => Verdict::fail(format!("replace with a selector that matches nothing fails: {}", e.brief().chars().take(150).collect::<String>())),
                }
            }
            Case::Nest { a, b } => {
                let (sa, sb) = (show_list(a), show_list(b));
                let f = sel_text(&format!("selector.nest({}, {})", q(&sa), q(&sb)));
                let e = emitted(&format!("{sa} {{ {sb} {{ x: y }} }}\n"));
                compare("nest", &sa, &sb, f, e, a.iter().chain(b.iter()).any(|m| m.comps.len() >= 2))
            }
            Case::Append { a, suffix } => {
                let sa = show_list(a);
                // an identifier suffix is only valid after a parent that ends in a name (and see C19 for parents
                // whose last written simple selector is not the one rsass prints last)
                if (suffix.starts_with('-') || suffix.starts_with('_')) && a.iter().any(|m| m.comps.last().is_some_and(|c| c.contains(':') || c.contains('[') || !c.chars().last().is_some_and(|x| x.is_alphanumeric()))) {
                    return Verdict::discard("domain: identifier suffix after a compound that does not end in a plain name");
                }
                let f = sel_text(&format!("selector.append({}, {})", q(&sa), q(suffix)));
                let e = emitted(&format!("{sa} {{ &{suffix} {{ x: y }} }}\n"));
                compare("append", &sa, suffix, f, e, a.iter().any(|m| m.comps.len() >= 2))
            }
        }
    }
}

fn compare(what: &str, a: &str, b: &str, f: Result<String, Res>, e: Result<String, Res>, nontrivial: bool) -> Verdict {
    match (f, e) {
        (Err(Res::Panic(m)), _) | (_, Err(Res::Panic(m))) => {
            // the nested rule shares the resolve_ref panic of C01/C19
            if m.contains("css/selectors/selector.rs") { Verdict::known("C24-suffix-append-panic", format!("panic: {m} for {what}({a:?}, {b:?})")) } else { Verdict::fail(format!("panic: {m}")) }
        }
        (Err(_), Err(_)) => Verdict::pass(false).class(format!("{what}-both-error")),
        (Ok(f), Ok(e)) => {
            if selnorm::canon(&f) == selnorm::canon(&e) {
                Verdict::pass(nontrivial).class(what.to_string())
            } else {
                Verdict::fail(format!("selector.{what}({a:?}, {b:?}) = {f:?} but the nested rule is emitted as {e:?}"))
            }
        }
        (Ok(f), Err(e)) => Verdict::fail(format!("selector.{what}({a:?}, {b:?}) = {f:?} but the nested rule fails: {}", e.brief().chars().take(120).collect::<String>())),
        (Err(f), Ok(e)) => Verdict::fail(format!("selector.{what}({a:?}, {b:?}) fails ({}) but the nested rule is emitted as {e:?}", f.brief().chars().take(120).collect::<String>())),
    }
}
