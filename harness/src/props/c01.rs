//! C01 Compilation never panics or aborts (inputs <= 64 KiB, nesting <= 64, 8 MiB stack).
//!
//! Cases run in worker subprocesses whose compile thread has an 8 MiB stack;
//! a panic, an abort or a stack overflow is a violation, a time-out is a
//! discarded case.

use crate::corpus::corpus;
use crate::engine::{Phase, Prop, Tier, Verdict};
use crate::gen::prog::{self, Cfg};
use crate::rs::{self, Opts, Res, St};
use proptest::prelude::*;
use serde::{Deserialize, Serialize};
use serde_json::json;

pub struct C01;

#[derive(Clone, Debug, Serialize, Deserialize)]
pub struct Case {
    /// source when it is valid UTF-8
    pub text: Option<String>,
    /// source otherwise
    pub bytes: Option<Vec<u8>>,
    pub css: bool,
    pub style: St,
    pub precision: usize,
}
impl Case {
    pub fn src(&self) -> Vec<u8> {
        match (&self.text, &self.bytes) {
            (Some(t), _) => t.clone().into_bytes(),
            (_, Some(b)) => b.clone(),
            _ => vec![],
        }
    }
    pub fn from_bytes(b: Vec<u8>, css: bool, style: St, precision: usize) -> Case {
        match String::from_utf8(b) {
            Ok(t) => Case { text: Some(t), bytes: None, css, style, precision },
            Err(e) => Case { text: None, bytes: Some(e.into_bytes()), css, style, precision },
        }
    }
}

/// Over-approximation of the combined nesting depth: running depth over every
/// `{ ( [` (also inside strings and comments), closers floor at zero, plus the
/// number of closers that a simple lexer places inside strings/comments or
/// after a backslash (they may not have closed anything).
pub fn depth_bound(src: &[u8]) -> usize {
    let mut depth = 0usize;
    let mut max = 0usize;
    let mut dubious = 0usize;
    let mut i = 0;
    let mut quote: Option<u8> = None;
    let mut block_comment = false;
    let mut line_comment = false;
    while i < src.len() {
        let c = src[i];
        let in_text = quote.is_some() || block_comment || line_comment;
        match c {
            b'{' | b'(' | b'[' => {
                depth += 1;
                max = max.max(depth);
            }
            b'}' | b')' | b']' => {
                depth = depth.saturating_sub(1);
                if in_text || (i > 0 && src[i - 1] == b'\\') {
                    dubious += 1;
                }
            }
            _ => {}
        }
        if block_comment {
            if c == b'*' && src.get(i + 1) == Some(&b'/') {
                block_comment = false;
                i += 1;
            }
        } else if line_comment {
            if c == b'\n' {
                line_comment = false;
            }
        } else if let Some(q) = quote {
            if c == b'\\' {
                i += 1;
            } else if c == q || c == b'\n' {
                quote = None;
            }
        } else if c == b'"' || c == b'\'' {
            quote = Some(c);
        } else if c == b'/' && src.get(i + 1) == Some(&b'*') {
            block_comment = true;
            i += 1;
        } else if c == b'/' && src.get(i + 1) == Some(&b'/') {
            line_comment = true;
            i += 1;
        } else if c == b'\\' {
            // escaped character outside strings: a following closer is counted as dubious above
        }
        i += 1;
    }
    max + dubious
}

/// directory with `fuzz-corpus/`, `fuzz-artifacts/` and `fuzz.log` of a libFuzzer campaign (set by ./check)
fn fuzz_dir() -> Option<String> {
    std::env::var("VERIF_FUZZ_DIR").ok().filter(|d| !d.is_empty())
}

/// a file of the fuzz target: byte 0 selects format, style and precision, the rest is the source
pub fn fuzz_case(data: &[u8]) -> Option<Case> {
    if data.len() < 2 {
        return None;
    }
    let sel = data[0];
    Some(Case::from_bytes(data[1..].to_vec(), sel & 1 == 1, if sel & 2 == 2 { St::Compressed } else { St::Expanded }, ((sel >> 2) % 21) as usize))
}

fn fuzz_cases(dir: &str, max: usize, prefixes: &[&str]) -> Vec<Case> {
    let mut names: Vec<std::path::PathBuf> = match std::fs::read_dir(dir) {
        Ok(rd) => rd.filter_map(|e| e.ok()).map(|e| e.path()).filter(|p| p.file_name().and_then(|n| n.to_str()).is_some_and(|n| prefixes.iter().any(|pre| n.starts_with(pre)))).collect(),
        Err(_) => vec![],
    };
    names.sort();
    // an even sample when there are more than `max`
    let step = (names.len() / max.max(1)).max(1);
    names.into_iter().step_by(step).filter_map(|p| std::fs::read(p).ok()).filter_map(|d| fuzz_case(&d)).collect()
}

/// one line about the campaign for the evidence
fn fuzz_summary() -> Option<String> {
    let dir = fuzz_dir()?;
    let log = std::fs::read_to_string(format!("{dir}/fuzz.log")).ok()?;
    // fork mode reports `#<executions>: cov: <edges> ft: .. corp: .. exec/s: ..` after every job
    let execs: u64 = log.lines().rev().find_map(|l| l.strip_prefix('#').and_then(|r| r.split(':').next()).and_then(|n| n.trim().parse::<u64>().ok())).unwrap_or(0);
    let cov = log.lines().rev().find_map(|l| l.split("cov: ").nth(1).and_then(|r| r.split_whitespace().next()).map(|s| s.to_string())).unwrap_or_default();
    let crashes = log.matches("VFUZZ-FAILURE").count();
    let corpus = std::fs::read_dir(format!("{dir}/fuzz-corpus")).map(|d| d.count()).unwrap_or(0);
    Some(format!("libFuzzer campaign before this run (fuzz/fuzz_targets/compile.rs, -fork=16, seeded with the spec corpus and a token dictionary): {execs} executions, edge coverage {cov}, {corpus} inputs kept for new coverage, {crashes} failure reports; kept inputs and crash artefacts are re-judged in phases fuzz-corpus / fuzz-artifacts"))
}

pub fn dict() -> &'static [&'static str] {
    DICT
}

const DICT: &[&str] = &[
    "@each", "@for", "@while", "@if", "@else", "@mixin", "@include", "@function", "@return", "@content", "@media", "@supports", "@at-root", "@extend", "@use", "@forward", "@import", "@error", "@warn", "@debug", "@charset", "@keyframes", "@font-face",
    "#{", "}", "{", "(", ")", "[", "]", "...", "!global", "!default", "!important", "!optional", "\\", "U+", "/*", "*/", "//", "\"", "'", "$", "&", "%", "@", ":", ";", ",", ".", "#", "*", "+", "-", "/", "=", "<", ">", "~", "|", "!", "\n", " ", "\t", "\r\n", "\u{c}",
    "calc(", "var(", "url(", "min(", "max(", "clamp(", "if(", "not ", " and ", " or ", "null", "true", "false", "from", "through", "to", "in", "using", "as", "with", "show", "hide", "1e999", "-0", "0", "1", "1px", "100%", "NaN", "infinity", "math.div(1,0)", "hsl(", "rgb(", "#fff", "é", "\u{feff}", "\u{0}", "\\0", "\\110000 ", "\\d800 ", "\\a", "$a", "$b", "meta.load-css(", "selector.nest(", "&-x", "%p", "::before", ":not(", ":is(", "@media screen {", "a {", "b: c;",
];

#[derive(Clone, Debug)]
enum Mut {
    Flip(usize, u8),
    Insert(usize, u8),
    Delete(usize, usize),
    Dict(usize, usize),
    Splice(usize, usize, usize, usize),
    Truncate(usize),
    Dup(usize, usize),
    /// replace a number-like token by an extreme value
    Extreme(usize, usize),
}

fn mutation() -> impl Strategy<Value = Mut> {
    prop_oneof![
        1 => (any::<usize>(), any::<u8>()).prop_map(|(p, b)| Mut::Flip(p, b)),
        1 => (any::<usize>(), any::<u8>()).prop_map(|(p, b)| Mut::Insert(p, b)),
        2 => (any::<usize>(), 1usize..12).prop_map(|(p, n)| Mut::Delete(p, n)),
        6 => (any::<usize>(), 0..DICT.len()).prop_map(|(p, d)| Mut::Dict(p, d)),
        2 => (any::<usize>(), 0..crate::gen::val::EXTREME.len()).prop_map(|(p, d)| Mut::Extreme(p, d)),
        3 => (any::<usize>(), any::<usize>(), any::<usize>(), 1usize..80).prop_map(|(p, o, q, n)| Mut::Splice(p, o, q, n)),
        1 => any::<usize>().prop_map(Mut::Truncate),
        2 => (any::<usize>(), 1usize..40).prop_map(|(p, n)| Mut::Dup(p, n)),
    ]
}

fn apply(mut s: Vec<u8>, m: &Mut) -> Vec<u8> {
    let c = corpus();
    let len = s.len();
    let at = |p: usize| if len == 0 { 0 } else { p % (len + 1) };
    match m {
        Mut::Flip(p, b) => {
            if len > 0 {
                s[p % len] = *b;
            }
        }
        Mut::Insert(p, b) => s.insert(at(*p), *b),
        Mut::Delete(p, n) => {
            if len > 0 {
                let a = p % len;
                let e = (a + n).min(len);
                s.drain(a..e);
            }
        }
        Mut::Dict(p, d) => {
            let a = at(*p);
            s.splice(a..a, DICT[*d].bytes());
        }
        Mut::Splice(p, o, q, n) => {
            if !c.is_empty() {
                let other = &c[o % c.len()];
                if !other.is_empty() {
                    let b = q % other.len();
                    let e = (b + n).min(other.len());
                    let a = at(*p);
                    s.splice(a..a, other[b..e].iter().cloned());
                }
            }
        }
        Mut::Extreme(p, d) => {
            // find a digit run at or after p and replace it
            if len > 0 {
                let st = p % len;
                if let Some(a) = (st..len).chain(0..st).find(|i| s[*i].is_ascii_digit()) {
                    let mut e = a;
                    while e < len && (s[e].is_ascii_digit() || s[e] == b'.') {
                        e += 1;
                    }
                    s.splice(a..e, crate::gen::val::EXTREME[*d].bytes());
                }
            }
        }
        Mut::Truncate(p) => {
            if len > 0 {
                s.truncate(p % len);
            }
        }
        Mut::Dup(p, n) => {
            if len > 0 {
                let a = p % len;
                let e = (a + n).min(len);
                let piece: Vec<u8> = s[a..e].to_vec();
                s.splice(a..a, piece);
            }
        }
    }
    s
}

fn opts() -> impl Strategy<Value = (bool, St, usize)> {
    (prop_oneof![4 => Just(false), 1 => Just(true)], prop_oneof![3 => Just(St::Expanded), 3 => Just(St::Compressed), 1 => Just(St::Introspection)], prop_oneof![3 => Just(10usize), 2 => 0usize..=20])
}

fn grammar_cases(wild: bool) -> impl Strategy<Value = Case> {
    (prog::sheet(Cfg { wild, ..Cfg::default() }), opts()).prop_map(|(s, (css, style, precision))| Case { text: Some(s), bytes: None, css, style, precision })
}

fn mutated_cases() -> impl Strategy<Value = Case> {
    (any::<usize>(), proptest::collection::vec(mutation(), 1..4), opts()).prop_map(|(i, ms, (css, style, precision))| {
        let c = corpus();
        let mut s = if c.is_empty() { b"a{b:c}".to_vec() } else { c[i % c.len()].clone() };
        for m in &ms {
            s = apply(s, m);
        }
        s.truncate(65536);
        Case::from_bytes(s, css, style, precision)
    })
}

fn corpus_cases() -> impl Strategy<Value = Case> {
    (any::<usize>(), opts()).prop_map(|(i, (css, style, precision))| {
        let c = corpus();
        let s = if c.is_empty() { b"a{b:c}".to_vec() } else { c[i % c.len()].clone() };
        Case::from_bytes(s, css, style, precision)
    })
}

const BLOCK_OPEN: &[(&str, &str)] = &[
    ("a {", "}"), (".b, c > d {", "}"), ("& e {", "}"), ("@media screen {", "}"), ("@media (min-width: 1px) {", "}"), ("@supports (a: b) {", "}"), ("@foo bar {", "}"), ("@at-root {", "}"), ("@at-root f {", "}"),
    ("@if true {", "}"), ("@if false {} @else {", "}"), ("@each $x in 1 2 {", "}"), ("@for $i from 1 through 2 {", "}"), ("font: {", "}"), ("@include n {", "}"), ("@include n using ($p) {", "}"), ("@keyframes k {", "}"), ("@font-face {", "}"), ("@layer x {", "}"), ("&:hover {", "}"), ("&-s {", "}"), ("@media print and (a: b) {", "}"),
];
const VALUE_OPEN: &[(&str, &str)] = &[
    ("(", ")"), ("[", "]"), ("f(", ")"), ("#{", "}"), ("calc(", ")"), ("if(true, ", ", 0)"), ("inspect(", ")"), ("(k: ", ")"), ("list.join((), ", ")"), ("-", ""), ("not ", ""), ("1 + ", ""), ("a#{", "}b"), ("\"s#{", "}\""), ("min(1, ", ")"), ("url(#{", "})"), ("var(--x, ", ")"), ("g(1, ", ")"), ("meta.type-of(", ")"),
];
const SEL_OPEN: &[(&str, &str)] = &[(":not(", ")"), (":is(", ")"), (":where(a, ", ")"), (":has(> ", ")"), ("::slotted(", ")"), (":nth-child(2n of ", ")"), (":host(", ")")];

fn deep_cases() -> impl Strategy<Value = Case> {
    (
        proptest::collection::vec(0..BLOCK_OPEN.len(), 0..64),
        proptest::collection::vec(0..VALUE_OPEN.len(), 0..64),
        proptest::collection::vec(0..SEL_OPEN.len(), 0..64),
        0usize..3,
        prop_oneof![Just("1"), Just("$a"), Just("a"), Just("&"), Just("1px"), Just("red"), Just("\"s\""), Just("null"), Just("1, 2"), Just("math.div(1,0)")],
        0usize..200,
        opts(),
    )
        .prop_map(|(mut blocks, mut values, mut sels, mode, core, indent, (css, style, precision))| {
            // total nesting at most 64 (each opener below adds one level; a few add two)
            let budget = 60usize;
            match mode {
                0 => {
                    blocks.truncate(budget);
                    values.truncate((budget - blocks.len()) / 2);
                    sels.truncate(0);
                }
                1 => {
                    values.truncate(budget / 2);
                    blocks.truncate(budget - values.len() * 2);
                    sels.truncate(0);
                }
                _ => {
                    sels.truncate(budget / 2);
                    blocks.truncate((budget - sels.len()) / 2);
                    values.truncate((budget - sels.len() - blocks.len()) / 2);
                }
            }
            let mut s = String::from("@use \"sass:math\"; @use \"sass:list\"; @use \"sass:selector\";\n$a: 1;\n@mixin n($p: 1) { @content($p); }\n@function f($x) { @return $x; }\n");
            s.push_str("z {\n");
            for b in &blocks {
                s.push_str(BLOCK_OPEN[*b].0);
                s.push('\n');
            }
            if !sels.is_empty() {
                s.push_str("q");
                for x in &sels {
                    s.push_str(SEL_OPEN[*x].0);
                }
                s.push_str(".z");
                for x in sels.iter().rev() {
                    s.push_str(SEL_OPEN[*x].1);
                }
                s.push_str(" { u: v }\n");
            }
            s.push_str(&format!("/* c\n{}x */\n", " ".repeat(indent)));
            s.push_str("p: ");
            for v in &values {
                s.push_str(VALUE_OPEN[*v].0);
            }
            s.push_str(core);
            for v in values.iter().rev() {
                s.push_str(VALUE_OPEN[*v].1);
            }
            s.push_str(";\n");
            for b in blocks.iter().rev() {
                s.push_str(BLOCK_OPEN[*b].1);
            }
            s.push_str("}\n");
            Case { text: Some(s), bytes: None, css, style, precision }
        })
}

/// every built-in function (module lists read from rsass itself, plus the global names) applied to boundary values
fn call_cases() -> impl Strategy<Value = Case> {
    let mut names: Vec<String> = crate::gen::val::FUNCS.iter().map(|s| s.to_string()).collect();
    for m in ["math", "string", "list", "map", "color", "selector", "meta"] {
        if let Ok(v) = rs::inspect(&format!("map.keys(meta.module-functions(\"{m}\"))")) {
            for n in v.split(", ") {
                names.push(format!("{m}.{}", n.trim_matches('"')));
            }
        }
    }
    names.sort();
    names.dedup();
    let arg = prop_oneof![8 => crate::gen::val::extreme(), 2 => crate::gen::val::expr()];
    let named = (one_of_names(), arg.clone()).prop_map(|(n, a)| format!("${n}: {a}"));
    let anyarg = prop_oneof![6 => arg.clone(), 1 => named];
    let tmpl = prop_oneof![
        10 => (proptest::sample::select(names), proptest::collection::vec(anyarg, 0..5)).prop_map(|(f, a)| format!("a {{ b: {f}({}) }}", a.join(", "))),
        2 => (arg.clone(), proptest::sample::select(crate::gen::val::BINOPS), arg.clone()).prop_map(|(a, o, b)| format!("a {{ b: {a}{o}{b}; c: ({a}){o}({b}) }}")),
        // colour constructors with one list argument (the channel-list syntaxes): lists of every separator and length 0..4
        1 => (proptest::sample::select(&["rgb", "rgba", "hsl", "hsla", "hwb", "color.hwb", "lab", "color.change", "color.adjust"][..]), proptest::sample::select(&["space", "comma", "slash"][..]), proptest::collection::vec(arg.clone(), 0..5), any::<bool>()).prop_map(|(f, sep, items, br)| {
            let mut l = String::from("()");
            for it in &items {
                l = format!("list.append({l}, {it}, {sep})");
            }
            if items.is_empty() {
                l = format!("list.join((), (), {sep})");
            }
            if br {
                l = format!("list.join({l}, (), $bracketed: true)");
            }
            format!("a {{ b: {f}({l}) }}")
        }),
        1 => (arg.clone(), arg.clone(), any::<bool>()).prop_map(|(a, b, t)| format!("@for $i from {a} {} {b} {{ a {{ b: $i }} }}", if t { "through" } else { "to" })),
        1 => (arg.clone(), arg.clone()).prop_map(|(a, b)| format!("$u: {a};\n@for $i from 1 through 140 {{ $u: $u * {b} !global; }}\na {{ b: $u; c: math.div(1, $u) }}")),
        1 => (arg.clone(), arg.clone()).prop_map(|(a, b)| format!("@each $k, $v in {a} {{ a {{ b: $k $v {b} }} }}")),
        1 => (arg.clone(), arg.clone()).prop_map(|(a, b)| format!("@media (min-width: {a}) and (x: {b}) {{ a {{ b: c }} }}")),
        1 => (arg.clone(), arg.clone()).prop_map(|(a, b)| format!("a {{ #{{{a}}}: {b}; --c: #{{{b}}}; d: \"#{{{a}}}\" }}")),
        1 => (arg.clone(), arg.clone()).prop_map(|(a, b)| format!("@function f($x, $y: {a}, $r...) {{ @return $x $y $r; }}\na {{ b: f({b}...); c: f({a}, $y: {b}); d: f({a}, {b}, {a}, $k: {b}) }}")),
        1 => (arg.clone(), arg.clone()).prop_map(|(a, b)| format!("@mixin m($x, $r...) {{ b: $x; c: $r; d: meta.keywords($r); @content({a}); }}\na {{ @include m({b}...) using ($q: 1) {{ e: $q }} }}")),
        1 => (arg.clone(), arg.clone()).prop_map(|(a, b)| format!("a {{ b: calc({a} + {b}); c: calc({a} * {b}); d: min({a}, {b}); e: clamp({a}, {b}, {a}); f: calc(({a}) / ({b})) }}")),
        1 => (arg.clone(), arg.clone()).prop_map(|(a, b)| format!("#{{{a}}} {{ x: y; &-s {{ z: {b} }} }}")),
        1 => (arg.clone(), arg.clone()).prop_map(|(a, b)| format!("a {{ @if {a} == {b} {{ c: eq }} @else if {a} < {b} {{ c: lt }} @else {{ c: other }} }}")),
    ];
    (tmpl, opts()).prop_map(|(body, (css, style, precision))| {
        let src = format!("{}$a: 1px; $args: 1 2; $kw: (x: 1);\n@function f($x: 1) {{ @return $x; }}\n{body}\n", rs::USES);
        Case { text: Some(src), bytes: None, css, style, precision }
    })
}

fn one_of_names() -> BoxedStrategy<String> {
    proptest::sample::select(&["number", "string", "list", "map", "color", "amount", "weight", "alpha", "hue", "saturation", "lightness", "red", "green", "blue", "n", "index", "start-at", "end-at", "separator", "bracketed", "key", "value", "limit", "x", "y", "base", "exponent", "selector", "selectors", "extendee", "extender", "name", "css", "module", "args", "min", "max", "condition", "if-true", "if-false", "insert", "substring", "map1", "map2", "list1", "list2", "color1", "color2", "whiteness", "blackness", "space", "channel"][..]).prop_map(|s| s.to_string()).boxed()
}

fn soup_cases() -> impl Strategy<Value = Case> {
    let tok = prop_oneof![
        6 => proptest::sample::select(DICT).prop_map(|s| s.as_bytes().to_vec()),
        2 => "[a-z0-9 ]{1,6}".prop_map(|s| s.into_bytes()),
        1 => proptest::collection::vec(any::<u8>(), 1..4),
        1 => "\\PC{1,3}".prop_map(|s| s.into_bytes()),
    ];
    (proptest::collection::vec(tok, 0..60), opts()).prop_map(|(v, (css, style, precision))| Case::from_bytes(v.concat(), css, style, precision))
}

/// known panic sites: (finding id, file suffix, message fragment)
const KNOWN_PANICS: &[(&str, &str, &str)] = &[
    ("C01-resolve-ref-unwrap", "css/selectors/selector.rs", "called `Result::unwrap()` on an `Err` value"),
];

pub fn classify_panic(msg: &str) -> Option<&'static str> {
    KNOWN_PANICS.iter().find(|(_, file, frag)| msg.contains(file) && msg.contains(frag)).map(|(id, _, _)| *id)
}

impl Prop for C01 {
    type Case = Case;
    const ID: &'static str = "C01";
    const ISOLATED: bool = true;
    const TIMEOUT_MS: u64 = 5_000;
    fn new() -> Self {
        C01
    }
    fn rule(&self) -> String {
        "cases: (a) stylesheets from the G-prog grammar (all statement kinds, odd values, NaN/infinite numbers, unit products, `&` everywhere); (b) nests of blocks / value brackets+calls+interpolations / selector pseudo arguments up to total depth 64 with a comment indented 0..200 columns; (c) the spec-corpus inputs with 1-4 mutations (byte flip/insert/delete, dictionary token, splice from another input, truncate, duplicate); (d) token/byte soup; (e) the unmodified corpus; each with format scss|css, style expanded|compressed|introspection, precision 0..=20, run in a worker process on an 8 MiB stack. Inputs over 64 KiB or whose over-approximated nesting depth exceeds 64 are discarded. Non-trivial: distinct input that got past the parser (Ok, or an error other than ParseError)".to_string()
            + &fuzz_summary().map(|s| format!(". {s}")).unwrap_or_default()
    }
    fn assumptions(&self) -> Vec<String> {
        vec![
            "nesting depth is over-approximated by bracket counting (openers inside strings/comments count; closers there do not), so no judged input exceeds depth 64".into(),
            "a compile that exceeds the 5 s watchdog or the 6 GiB address-space limit is discarded (exponential backtracking on unbalanced parentheses and non-terminating @while are legitimate), never a violation".into(),
            "built with overflow-checks and debug-assertions on (the profile the repository's own tests use), so arithmetic-overflow panics count".into(),
        ]
    }
    fn phases(&self, tier: Tier) -> Vec<Phase<Case>> {
        let v = vec![
            Phase::random("deep-nests", deep_cases(), tier.pick(6_000, 300_000)),
            Phase::random("grammar", grammar_cases(false), tier.pick(30_000, 1_500_000)),
            Phase::random("grammar-wild", grammar_cases(true), tier.pick(15_000, 800_000)),
            Phase::random("extreme-calls", call_cases(), tier.pick(40_000, 2_000_000)),
            Phase::random("corpus-mutation", mutated_cases(), tier.pick(30_000, 1_500_000)),
            Phase::random("soup", soup_cases(), tier.pick(10_000, 500_000)),
            Phase::random("corpus", corpus_cases(), tier.pick(6_000, 100_000)),
        ];
        // what the libFuzzer campaign of `./check C01 thorough` stored: every crash artefact, and the corpus it built
        // (inputs that reached new coverage), re-judged here by the worker-based oracle
        let mut v = v;
        if let Some(dir) = fuzz_dir() {
            let mut arts = fuzz_cases(&format!("{dir}/fuzz-artifacts"), usize::MAX, &["crash-", "leak-"]);
            arts.extend(fuzz_cases(&format!("{}/replays/regress/C01-fuzz", crate::engine::verif_root()), usize::MAX, &[""]));
            v.insert(0, Phase::list("fuzz-artifacts", arts));
            v.push(Phase::list("fuzz-corpus", fuzz_cases(&format!("{dir}/fuzz-corpus"), 60_000, &[""])));
        }
        v
    }
    fn render(&self, c: &Case) -> serde_json::Value {
        let src = c.src();
        let t = String::from_utf8_lossy(&src);
        let t: String = t.chars().take(400).collect();
        json!({"src": t, "len": src.len(), "css": c.css, "style": c.style, "precision": c.precision})
    }
    fn on_worker_death(&self, c: &Case, why: &str) -> Verdict {
        let src = c.src();
        let t = String::from_utf8_lossy(&src);
        if why.contains("stack overflow") && (t.contains("@mixin") || t.contains("@function")) {
            // run-time recursion of a user mixin/function nests calls deeper than the bound
            return Verdict::discard("domain: stack overflow in a program that defines mixins/functions (call depth may exceed 64)");
        }
        Verdict::fail(why.to_string())
    }
    fn check(&self, c: &Case) -> Verdict {
        let src = c.src();
        if src.len() > 65536 {
            return Verdict::discard("over 64 KiB");
        }
        if depth_bound(&src) > 64 {
            return Verdict::discard("nesting bound over 64");
        }
        let o = Opts { css: c.css, style: c.style, precision: c.precision };
        match rs::compile(&src, &o) {
            Res::Ok(_) => Verdict::pass(true).class("ok"),
            Res::Err { kind, .. } => Verdict::pass(kind != "ParseError").class(format!("err-{kind}")),
            Res::Panic(m) => match classify_panic(&m) {
                Some(id) => Verdict::known(id, format!("panic: {m}")),
                None => Verdict::fail(format!("panic: {m}")),
            },
        }
    }
}
