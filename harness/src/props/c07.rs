//! C07 Output is well framed and correctly encoded.
//! (The input generator `style_cases` is shared with C08.)

use crate::corpus::corpus_live_str;
use crate::cssread::{self, Tok};
use crate::engine::{Phase, Prop, Tier, Verdict};
use crate::gen::prog::{self, Cfg};
use crate::rs::{self, Opts, Res, St};
use proptest::prelude::*;
use serde::{Deserialize, Serialize};

pub struct C07;

#[derive(Clone, Debug, Serialize, Deserialize)]
pub struct Case {
    pub text: String,
    pub css: bool,
}

/// programs with forced non-ASCII text, comments and custom properties at several depths
fn unicode_cases() -> impl Strategy<Value = Case> {
    let piece = prop_oneof![
        Just("é"), Just("日本"), Just("😀"), Just("ü"), Just("\u{a0}"), Just("\u{feff}"), Just("\u{2028}"), Just("x"), Just("a b"), Just("\u{80}"), Just("\u{7f}"), Just("\u{e000}"), Just("\u{10ffff}"),
    ];
    let place = 0usize..16;
    (proptest::collection::vec((piece, place), 1..4), 0usize..4, any::<bool>()).prop_map(|(ps, depth, media)| {
        let mut body = String::new();
        for (p, place) in &ps {
            body.push_str(&match place {
                0 => format!("content: \"{p}\";\n"),
                1 => format!("/* {p} */\n"),
                2 => format!("--c: {p};\n"),
                3 => format!(".{} {{ k: v }}\n", p.replace(' ', "-").replace('\u{7f}', "d").replace('\u{a0}', "n").replace('\u{feff}', "b").replace('\u{2028}', "l")),
                4 => format!("font-family: {};\n", p.replace(' ', "-").replace('\u{7f}', "d").replace('\u{a0}', "n").replace('\u{feff}', "b").replace('\u{2028}', "l")),
                5 => format!("content: \"\\{:x} \";\n", p.chars().next().map(|c| c as u32).unwrap_or(65)),
                6 => format!("&[data-x=\"{p}\"] {{ k: v }}\n"),
                7 => format!("u: url({});\n", p.replace(' ', "%20")),
                8 => format!("s: string.to-upper-case(\"{p}\") + string.length(\"{p}\");\n"),
                9 => format!("/*! {p} */\n// {p}\n"),
                // non-ASCII text that lives only in an at-rule's name or prelude (a different writer path)
                10 => format!("@keyframes k{} {{ from {{ k: v }} }}\n", p.replace(' ', "-").replace('\u{7f}', "d").replace('\u{a0}', "n").replace('\u{feff}', "b").replace('\u{2028}', "l")),
                11 => format!("@foo \"{p}\";\n"),
                12 => format!("@media (foo: \"{p}\") {{ k: v }}\n"),
                13 => format!("@supports (a: \"{p}\") {{ k: v }}\n"),
                14 => format!("@foo-{} bar {{ k: v }}\n", p.replace(' ', "-").replace('\u{7f}', "d").replace('\u{a0}', "n").replace('\u{feff}', "b").replace('\u{2028}', "l")),
                _ => format!("@font-face {{ font-family: x; src: url(\"{p}.woff\") }}\n"),
            });
        }
        let mut s = String::from("@use \"sass:string\";\n");
        if media {
            s.push_str("@media screen {\n");
        }
        for i in 0..=depth {
            s.push_str(&format!("l{i} {{\n"));
        }
        s.push_str(&body);
        for _ in 0..=depth {
            s.push_str("}\n");
        }
        if media {
            s.push_str("}\n");
        }
        Case { text: s, css: false }
    })
}

/// strings holding line breaks (written as escapes) that reach declaration values, selectors and at-rule
/// preludes unquoted, in lists, calls and before !important; no custom properties
fn newline_cases() -> impl Strategy<Value = Case> {
    let nl = prop_oneof![Just("unquote(\"x\\a y\")"), Just("#{\"x\\a y\"}"), Just("unquote(\"x\\d\\a y\")"), Just("string.unquote(\"\\a\")"), Just("#{\"a\\c b\"}"), Just("\"q\\a r\""), Just("unquote(\"x\\a\") + y"), Just("string.insert(abc, unquote(\"\\a\"), 2)")];
    let ctx = prop_oneof![
        Just("b: 1px NL;"), Just("b: NL, c;"), Just("b: NL !important;"), Just("b: f(NL);"), Just("b: NL;"), Just("b: (NL c) d;"), Just("b: [NL];"), Just("b: a NL c / 2;"), Just("b: url(NL);"), Just("b: calc(1px + NL);"), Just("b: NL NL;"), Just("font: { family: a NL; }"), Just("@media screen { b: c NL; }"), Just("&:hover { b: c, NL; }"), Just("b: if(true, NL e, f);"), Just("@include m(NL);"), Just("@each $i in a NL { b: $i z; }"),
    ];
    (proptest::collection::vec((ctx, nl), 1..4), any::<bool>()).prop_map(|(v, nest)| {
        let mut body = String::new();
        for (c, n) in v {
            body.push_str(&c.replace("NL", n));
            body.push('\n');
        }
        let text = if nest { format!("@use \"sass:string\";\n@mixin m($x) {{ mx: 1 $x; }}\n.o {{ .i {{\n{body}}} }}\n") } else { format!("@use \"sass:string\";\n@mixin m($x) {{ mx: 1 $x; }}\n.o {{\n{body}}}\n") };
        Case { text, css: false }
    })
}

pub fn style_phases(tier: Tier, scale: u64) -> Vec<Phase<Case>> {
    let n = |q: u64, t: u64| tier.pick(q, t) * scale / 10;
    let corpus: Vec<Case> = corpus_live_str().iter().flat_map(|t| [Case { text: t.clone(), css: false }, Case { text: t.clone(), css: true }]).collect();
    let corpus = match tier {
        Tier::Quick => corpus.into_iter().step_by(2).collect(),
        Tier::Thorough => corpus,
    };
    vec![
        Phase::random("safe-grammar", prog::sheet(Cfg { wild: false, safe: true, ..Cfg::default() }).prop_map(|text| Case { text, css: false }), n(30_000, 1_500_000)),
        Phase::random("unicode", unicode_cases(), n(6_000, 200_000)),
        Phase::random("newline-strings", newline_cases(), n(3_000, 100_000)),
        Phase::random("tame-grammar", prog::sheet(Cfg { wild: false, ..Cfg::default() }).prop_map(|text| Case { text, css: false }), n(10_000, 500_000)),
        // rsass's own expanded output fed back in as plain CSS (multi-line comments, @charset, custom properties)
        Phase::random(
            "css-reparse",
            prog::sheet(Cfg { wild: false, safe: true, ..Cfg::default() }).prop_map(|text| match rs::compile(text.as_bytes(), &Opts::default()) {
                Res::Ok(out) => Case { text: String::from_utf8_lossy(&out).to_string(), css: true },
                _ => Case { text: "a {\n  /* m\n     n */\n  b: c;\n}\n".into(), css: true },
            }),
            n(6_000, 200_000),
        ),
        Phase::list("corpus", corpus),
    ]
}

/// does the source smuggle raw braces/brackets (or a raw quote / backslash escape, which hide them) into the
/// output through strings or escapes?  Conservative scan: strings with `#{…}` interpolation are followed.
pub fn raw_brackets_possible(src: &str) -> bool {
    struct Sc<'a> {
        b: &'a [u8],
        i: usize,
    }
    impl Sc<'_> {
        /// scan code until the `}` that closes an interpolation (when `interp`) or the end; true = suspicious
        fn code(&mut self, interp: bool) -> bool {
            let mut depth = 0usize;
            while self.i < self.b.len() {
                let c = self.b[self.i];
                match c {
                    b'\\' => {
                        if matches!(self.b.get(self.i + 1), Some(b'{') | Some(b'}') | Some(b'[') | Some(b']') | Some(b'7') | Some(b'5') | Some(b'"') | Some(b'\'') | Some(b'2')) {
                            return true;
                        }
                        self.i += 2;
                        continue;
                    }
                    b'"' | b'\'' => {
                        self.i += 1;
                        if self.string(c) {
                            return true;
                        }
                        continue;
                    }
                    b'/' if self.b.get(self.i + 1) == Some(&b'*') => {
                        // comment: skip (interpolation inside comments is followed as code)
                        self.i += 2;
                        while self.i < self.b.len() && !(self.b[self.i] == b'*' && self.b.get(self.i + 1) == Some(&b'/')) {
                            self.i += 1;
                        }
                        self.i += 2;
                        continue;
                    }
                    b'/' if self.b.get(self.i + 1) == Some(&b'/') => {
                        while self.i < self.b.len() && self.b[self.i] != b'\n' {
                            self.i += 1;
                        }
                        continue;
                    }
                    b'{' if interp => depth += 1,
                    b'}' if interp => {
                        if depth == 0 {
                            self.i += 1;
                            return false;
                        }
                        depth -= 1;
                    }
                    _ => {}
                }
                self.i += 1;
            }
            false
        }
        fn string(&mut self, q: u8) -> bool {
            while self.i < self.b.len() {
                let c = self.b[self.i];
                if c == q {
                    self.i += 1;
                    return false;
                }
                match c {
                    b'\\' => {
                        // an escape that can denote a quote, bracket, brace or backslash (\" \' \\ \22 \27 \5b \5c \5d \7b \7d)
                        if matches!(self.b.get(self.i + 1), Some(b'{') | Some(b'}') | Some(b'[') | Some(b']') | Some(b'7') | Some(b'5') | Some(b'"') | Some(b'\'') | Some(b'2') | Some(b'\\') | Some(b'\n') | Some(b'a') | Some(b'A') | Some(b'd') | Some(b'D') | Some(b'c') | Some(b'C') | None) {
                            // (\a \d \c: a line break that reaches the output raw ends a string token early)
                            return true;
                        }
                        self.i += 2;
                        continue;
                    }
                    b'#' if self.b.get(self.i + 1) == Some(&b'{') => {
                        self.i += 2;
                        if self.code(true) {
                            return true;
                        }
                        continue;
                    }
                    b'{' | b'}' | b'[' | b']' | b'"' | b'\'' => return true,
                    b'\n' => return true,
                    _ => {}
                }
                self.i += 1;
            }
            true
        }
    }
    Sc { b: src.as_bytes(), i: 0 }.code(false)
}

fn balanced_braces_brackets(text: &str) -> Result<(), String> {
    let mut stack = vec![];
    for t in cssread::tokenize(text) {
        match t {
            Tok::Open(c) if c != '(' => stack.push(c),
            Tok::Close(c) if c != ')' => {
                let want = if c == ']' { '[' } else { '{' };
                match stack.pop() {
                    Some(o) if o == want => {}
                    Some(o) => return Err(format!("'{c}' closes '{o}'")),
                    None => return Err(format!("unmatched '{c}'")),
                }
            }
            _ => {}
        }
    }
    match stack.pop() {
        Some(o) => Err(format!("unclosed '{o}'")),
        None => Ok(()),
    }
}

/// positions of newlines that are inside the value of a custom property (allowed in compressed output)
fn newlines_outside_custom_props(text: &str) -> Vec<usize> {
    let chars: Vec<char> = text.chars().collect();
    let toks = cssread::tokenize_chars(&chars);
    let mut bad = vec![];
    let mut i = 0;
    let mut in_custom = false;
    let mut depth = 0i32;
    while i < toks.len() {
        let t = &toks[i];
        match &t.tok {
            Tok::Ident(n) if n.starts_with("--") && !in_custom && matches!(toks.get(i + 1).map(|t| &t.tok), Some(Tok::Colon)) => {
                in_custom = true;
                depth = 0;
            }
            Tok::Open(_) | Tok::Function(_) if in_custom => depth += 1,
            Tok::Close(c) if in_custom => {
                if depth == 0 && *c == '}' {
                    in_custom = false;
                } else {
                    depth -= 1;
                }
            }
            Tok::Semi if in_custom && depth == 0 => in_custom = false,
            _ => {}
        }
        if !in_custom {
            let s: String = chars[t.start..t.end].iter().collect();
            if s.contains('\n') && t.end < chars.len() {
                bad.push(t.start);
            } else if s.contains('\n') && s.trim_end_matches('\n').contains('\n') {
                bad.push(t.start);
            }
        }
        i += 1;
    }
    bad
}

pub struct Framing {
    pub problems: Vec<(String, String)>,
    pub nontrivial: bool,
    pub classes: Vec<&'static str>,
}

/// the validity predicate of C07 on one output
pub fn judge_output(out: &[u8], compressed: bool, src: &str) -> Framing {
    let mut problems = vec![];
    let mut classes = vec![];
    let Ok(text) = std::str::from_utf8(out) else {
        return Framing { problems: vec![("utf8".into(), "output is not valid UTF-8".into())], nontrivial: true, classes };
    };
    if !text.is_empty() {
        if !text.ends_with('\n') {
            problems.push(("final-newline".into(), "output does not end with a newline".into()));
        } else if text.ends_with("\n\n") {
            problems.push(("final-newline".into(), "output ends with more than one newline".into()));
        }
    }
    let ascii = text.is_ascii();
    let has_charset = text.starts_with("@charset \"UTF-8\";");
    let has_bom = text.starts_with('\u{feff}');
    if !ascii {
        classes.push("non-ascii");
        let body_nonascii = if has_bom { !text['\u{feff}'.len_utf8()..].is_ascii() } else { true };
        if compressed {
            if !has_bom {
                problems.push(("marker".into(), "compressed output with non-ASCII text does not start with a byte-order mark".into()));
            }
        } else if has_bom && !body_nonascii {
            problems.push(("marker".into(), "expanded output carries a byte-order mark".into()));
        } else if !has_charset {
            problems.push(("marker".into(), "expanded output with non-ASCII text does not start with @charset \"UTF-8\";".into()));
        }
    }
    let unreliable = raw_brackets_possible(src);
    if unreliable {
        classes.push("token-checks-not-judged");
    } else if let Err(e) = balanced_braces_brackets(text) {
        problems.push(("balance".into(), format!("braces/brackets do not balance: {e}")));
    }
    if compressed && unreliable && !text.contains("--") {
        // no custom property anywhere: every line break before the last byte is a violation, no tokenizer needed
        if let Some(p) = text.trim_end_matches('\n').find('\n').or_else(|| if text.ends_with("\n\n") { Some(text.len() - 2) } else { None }) {
            let ctx: String = text[..p].chars().rev().take(20).collect::<String>().chars().rev().collect();
            problems.push(("compressed-newline".into(), format!("line break inside compressed output after {ctx:?}")));
        }
    }
    if compressed && !unreliable {
        let bad = newlines_outside_custom_props(text);
        if !bad.is_empty() {
            let at = bad[0];
            let ctx: String = text.chars().skip(at.saturating_sub(20)).take(50).collect();
            problems.push(("compressed-newline".into(), format!("line break inside compressed output near {ctx:?}")));
        }
    }
    let depth2 = {
        let mut d = 0;
        let mut m = 0;
        for t in cssread::tokenize(text) {
            match t {
                Tok::Open('{') => {
                    d += 1;
                    m = m.max(d);
                }
                Tok::Close('}') => d -= 1,
                _ => {}
            }
        }
        m >= 2
    };
    if depth2 {
        classes.push("nested-blocks");
    }
    let comment = text.contains("/*");
    if comment {
        classes.push("comment");
    }
    let custom = text.contains("--");
    if custom {
        classes.push("custom-property");
    }
    Framing { problems, nontrivial: !text.is_empty() && (!ascii || depth2 || comment || custom), classes }
}

/// known deviations, keyed on where the offending line break sits
fn region(kind: &str, c: &Case, compressed: bool, out: &str) -> Option<&'static str> {
    if kind == "balance" {
        // the source ends inside an unterminated /* comment that rsass accepts in a value and copies out
        if let Some(p) = c.text.rfind("/*") {
            if !c.text[p..].contains("*/") && out.rfind("/*").is_some_and(|q| !out[q..].contains("*/")) {
                return Some("C07-unterminated-comment-accepted");
            }
        }
        return None;
    }
    if kind != "compressed-newline" || !compressed {
        return None;
    }
    let chars: Vec<char> = out.chars().collect();
    let at = *newlines_outside_custom_props(out).first()?;
    if chars[at..].starts_with(&['/', '*']) {
        // a comment token that contains a line break
        return if c.css { Some("C07-css-comment-newline-compressed") } else { Some("C07-comment-newline-compressed") };
    }
    // the token holding the line break follows an at-keyword with no `{`, `}` or `;` in between: at-rule prelude
    let before: String = chars[..at].iter().collect();
    let last_at = before.rfind('@')?;
    if !before[last_at..].contains(['{', '}', ';']) {
        return Some("C07-atrule-prelude-newline-compressed");
    }
    None
}

pub fn check_case(c: &Case) -> (Verdict, Option<(Res, Res)>) {
    let e = rs::compile(c.text.as_bytes(), &Opts { css: c.css, style: St::Expanded, precision: 10 });
    let k = rs::compile(c.text.as_bytes(), &Opts { css: c.css, style: St::Compressed, precision: 10 });
    let mut v = Verdict::pass(false);
    let mut nontrivial = false;
    for (r, compressed) in [(&e, false), (&k, true)] {
        match r {
            Res::Panic(m) => return (Verdict::discard(format!("panic (C01's business): {}", m.chars().take(80).collect::<String>())), None),
            Res::Err { .. } => {
                v = v.class(if compressed { "compressed-err" } else { "expanded-err" });
            }
            Res::Ok(out) => {
                let f = judge_output(out, compressed, &c.text);
                nontrivial |= f.nontrivial;
                for cl in &f.classes {
                    v = v.class(*cl);
                }
                if let Some((kind, msg)) = f.problems.first() {
                    let text = String::from_utf8_lossy(out).to_string();
                    let msg = format!("{} output: {msg}; output = {:?}", if compressed { "compressed" } else { "expanded" }, text.chars().take(300).collect::<String>());
                    let verdict = match region(kind, c, compressed, &text) {
                        Some(id) => Verdict::known(id, msg),
                        None => Verdict::fail(msg),
                    };
                    return (verdict, Some((e.clone(), k.clone())));
                }
            }
        }
    }
    v.nontrivial = nontrivial;
    (v, Some((e, k)))
}

impl Prop for C07 {
    type Case = Case;
    const ID: &'static str = "C07";
    const ISOLATED: bool = true;
    const TIMEOUT_MS: u64 = 10_000;
    fn new() -> Self {
        C07
    }
    fn rule(&self) -> String {
        "inputs: stylesheets from the 'safe' G-prog grammar (constructs that cannot fail: rules, nested properties, @media/@supports/unknown at-rules, @font-face, @keyframes, @at-root, control flow, mixins with content, comments of all kinds, custom properties, non-ASCII strings/selectors), a generator that forces non-ASCII text into strings, comments, custom properties, selectors, url() at depth 0..4, the tame grammar, the same programs read as plain CSS, and every input of the repository's non-ignored spec tests (as scss and as css); each compiled expanded and compressed. Oracle: validity predicate on the bytes using the independent CSS tokenizer. Non-trivial: non-empty output containing non-ASCII text, block nesting >= 2, a comment or a custom property; distinct by input".into()
    }
    fn assumptions(&self) -> Vec<String> {
        vec![
            "brace/bracket balance and the compressed line-break rule (both need the output tokenised) are not judged when the source can put raw brackets or a raw quote into the output through a string or an escape (unquote(\"{\"), #{\"]\"}, \\7b, a#{\"\\\"\"}b)".into(),
            "a marker without non-ASCII text is not judged (the statement only requires the marker when non-ASCII text is present)".into(),
            "inputs on which rsass panics are discarded here (they are C01 violations)".into(),
        ]
    }
    fn phases(&self, tier: Tier) -> Vec<Phase<Case>> {
        style_phases(tier, 10)
    }
    fn on_worker_death(&self, _c: &Case, why: &str) -> Verdict {
        // a crash (e.g. the stack overflow of a mixin that includes itself) is C01's subject; this property speaks
        // about the output of compilations that return
        Verdict::discard(format!("worker died, not judged here: {}", why.chars().take(80).collect::<String>()))
    }
    fn check(&self, c: &Case) -> Verdict {
        check_case(c).0
    }
}
