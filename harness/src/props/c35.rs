//! C35 Meaning-preserving source rewrites do not change the output.

use crate::engine::{Phase, Prop, Tier, Verdict};
use crate::gen::one_of;
use crate::rs::{self, Opts, Res};
use proptest::prelude::*;
use serde::{Deserialize, Serialize};
use std::collections::BTreeMap;

pub struct C35;

/// names are indices into per-kind name tables, so that renaming is a table change
#[derive(Clone, Debug, Serialize, Deserialize)]
pub enum V {
    Num(i32, String),
    Ident(String),
    Str(String),
    /// global variable
    Var(usize),
    /// local variable (mixin/function parameter or loop variable), by name index in the local table
    Local(usize),
    /// user function call
    Call(usize, Vec<V>),
    Builtin(String, Vec<V>),
    Bin(Box<V>, char, Box<V>),
    List(Vec<V>),
    /// map literal `(k1: v, k2: w)` read through map-get
    MapGet(Vec<(String, V)>, usize),
    /// set by the hoisting rewrite: a fresh variable
    Fresh(usize),
}

#[derive(Clone, Debug, Serialize, Deserialize)]
pub enum S {
    Decl(String, V),
    /// assignment of a global (at top level) or of a global with !global (inside blocks)
    Set(usize, V),
    Rule(String, Vec<S>),
    Include(usize, Vec<V>),
    If(V, Vec<S>, Vec<S>),
    /// loop variable (local index), items
    Each(usize, Vec<V>, Vec<S>),
    FnDef(usize, V),
    MixinDef(usize, Vec<S>),
    /// inserted by rewrites
    Debug(bool, String),
    /// inserted by the hoisting rewrite: `$fresh-k: v;`
    FreshDef(usize, V),
}

#[derive(Clone, Debug, Serialize, Deserialize)]
pub enum Rw {
    /// vary the white space with this seed
    Space(u64),
    /// rename (kind 0 var, 1 function, 2 mixin, 3 local) index -> new name
    Rename(u8, usize, String),
    /// swap `-` and `_` in occurrences of names, chosen by this seed
    DashSwap(u64),
    /// put the value of the k-th declaration into a fresh variable
    Hoist(usize),
    /// insert @debug (false) or @warn (true) before the k-th statement
    Debug(usize, bool),
    /// move top-level statements [from, to) into a partial loaded by @import
    ToPartial(usize, usize),
}

#[derive(Clone, Debug, Serialize, Deserialize)]
pub struct Case {
    pub top: Vec<S>,
    pub rewrites: Vec<Rw>,
}

const VARS: &[&str] = &["a-b", "_p", "c_d", "-q", "e", "long-name_x", "v7"];
const FUNS: &[&str] = &["fn-a", "fn_b", "f", "g_h-i"];
const MIXINS: &[&str] = &["mix-a", "mix_b", "m", "-n"];
const LOCALS: &[&str] = &["x", "y-z", "i_j", "_k"];

// ---------- generator ----------

fn leaf(globals: usize, locals: Vec<usize>) -> BoxedStrategy<V> {
    let mut opts: Vec<(u32, BoxedStrategy<V>)> = vec![
        (3, (-50i32..200, one_of(&["", "px", "%", "em"])).prop_map(|(v, u)| V::Num(v, u)).boxed()),
        (3, one_of(&["a", "b", "solid", "red", "auto", "x-y", "bold"]).prop_map(V::Ident).boxed()),
        (1, one_of(&["q", "a b", "x-y_z", ""]).prop_map(V::Str).boxed()),
    ];
    if globals > 0 {
        opts.push((4, (0..globals).prop_map(V::Var).boxed()));
    }
    if !locals.is_empty() {
        opts.push((4, proptest::sample::select(locals).prop_map(V::Local).boxed()));
    }
    proptest::strategy::Union::new_weighted(opts).boxed()
}

fn value(globals: usize, funs: usize, locals: Vec<usize>, depth: u32) -> BoxedStrategy<V> {
    let l = leaf(globals, locals.clone());
    if depth == 0 {
        return l;
    }
    let sub = {
        let locals = locals.clone();
        move || value(globals, funs, locals.clone(), depth - 1)
    };
    let mut opts: Vec<(u32, BoxedStrategy<V>)> = vec![
        (5, l),
        (2, proptest::collection::vec(sub(), 2..4).prop_map(V::List).boxed()),
        (2, (proptest::collection::vec(sub(), 1..4), any::<usize>()).prop_map(|(vs, k)| V::MapGet(vs.into_iter().enumerate().map(|(i, v)| (format!("k{i}"), v)).collect(), k)).boxed()),
        (1, (sub(), sub()).prop_map(|(a, b)| V::Builtin("if".into(), vec![V::Ident("true".into()), a, b])).boxed()),
        (1, proptest::collection::vec(sub(), 1..3).prop_map(|v| V::Builtin("length".into(), vec![V::List(v)])).boxed()),
        (1, (sub(), sub()).prop_map(|(a, b)| V::Builtin("join".into(), vec![a, b])).boxed()),
        (1, sub().prop_map(|a| V::Builtin("inspect".into(), vec![a])).boxed()),
        (1, ((0i32..50), proptest::sample::select(vec!['+', '-', '*']), (0i32..50)).prop_map(|(a, o, b)| V::Bin(Box::new(V::Num(a, "px".into())), o, Box::new(V::Num(b, if o == '*' { "".into() } else { "px".into() })))).boxed()),
    ];
    if funs > 0 {
        opts.push((2, ((0..funs), sub()).prop_map(|(f, a)| V::Call(f, vec![a])).boxed()));
    }
    proptest::strategy::Union::new_weighted(opts).boxed()
}

fn stmts(globals: usize, funs: usize, mixins: usize, locals: Vec<usize>, in_rule: bool, depth: u32) -> BoxedStrategy<Vec<S>> {
    let val = {
        let locals = locals.clone();
        move || value(globals, funs, locals.clone(), 2)
    };
    let mut opts: Vec<(u32, BoxedStrategy<S>)> = vec![];
    if in_rule {
        opts.push((6, (one_of(&["color", "margin", "w", "x-y", "font"]), val()).prop_map(|(p, v)| S::Decl(p, v)).boxed()));
    }
    if globals > 0 {
        // re-assignments hold no variables: `$a: ($a $a)` in nested loops grows exponentially
        opts.push((1, ((0..globals), value(0, 0, vec![], 2)).prop_map(|(g, v)| S::Set(g, v)).boxed()));
    }
    if mixins > 0 {
        // mixin 0 has no declarations of its own and can be included anywhere, the others only inside a rule
        let usable = if in_rule { mixins } else { 1 };
        opts.push((2, ((0..usable), val()).prop_map(|(m, v)| S::Include(m, vec![v])).boxed()));
    }
    if depth > 0 {
        let d = depth - 1;
        let l2 = locals.clone();
        opts.push((3, (one_of(&["a", ".b", "c d", "&:hover", ".e-f_g"]), stmts(globals, funs, mixins, locals.clone(), true, d)).prop_map(move |(s, b)| S::Rule(if !in_rule && s.starts_with('&') { "h".into() } else { s }, b)).boxed()));
        opts.push((1, (val(), stmts(globals, funs, mixins, locals.clone(), in_rule, d), stmts(globals, funs, mixins, locals.clone(), in_rule, d)).prop_map(|(c, a, b)| S::If(V::Bin(Box::new(c), '=', Box::new(V::Ident("a".into()))), a, b)).boxed()));
        // loop variable: a local not yet in use
        if let Some(free) = (0..LOCALS.len()).find(|i| !l2.contains(i)) {
            let mut inner = l2.clone();
            inner.push(free);
            opts.push((1, (proptest::collection::vec(val(), 1..3), stmts(globals, funs, mixins, inner, in_rule, d)).prop_map(move |(items, b)| S::Each(free, items, b)).boxed()));
        }
    }
    if opts.is_empty() {
        return Just(vec![]).boxed();
    }
    proptest::collection::vec(proptest::strategy::Union::new_weighted(opts), 0..4).boxed()
}

fn program() -> BoxedStrategy<Vec<S>> {
    // declarations first (4 variables, 2 functions, 2 mixins; fixed counts keep the strategy tree static),
    // then rules; later statements may use everything
    let (nv, nf, nm) = (4usize, 2usize, 2usize);
    let vars = proptest::collection::vec(value(0, 0, vec![], 1), nv).prop_map(|vs| vs.into_iter().enumerate().map(|(i, v)| S::Set(i, v)).collect::<Vec<_>>());
    let funs = proptest::collection::vec(value(nv, 0, vec![0], 2), nf).prop_map(|vs| vs.into_iter().enumerate().map(|(i, v)| S::FnDef(i, v)).collect::<Vec<_>>());
    let mixins = (stmts(nv, nf, 0, vec![0], false, 2), stmts(nv, nf, 0, vec![0], true, 1)).prop_map(|(b0, b1)| vec![S::MixinDef(0, b0), S::MixinDef(1, b1)]);
    let _ = nm;
    // the last rule always has a declaration, so that few programs are empty
    let body = (stmts(nv, nf, nm, vec![], false, 3), value(nv, nf, vec![], 2)).prop_map(|(mut b, v)| {
        b.push(S::Rule(".last".into(), vec![S::Decl("w".into(), v)]));
        b
    });
    (vars, funs, mixins, body, 0usize..=2, 0usize..=2)
        .prop_map(|(mut a, mut b, mut c, d, drop_f, drop_m)| {
            // sometimes fewer definitions (the body only uses what stays defined: indices are taken modulo)
            let _ = (drop_f, drop_m, &mut b, &mut c);
            a.extend(b);
            a.extend(c);
            a.extend(d);
            a
        })
        .boxed()
}

fn rewrite() -> BoxedStrategy<Rw> {
    prop_oneof![
        3 => any::<u64>().prop_map(Rw::Space),
        1 => Just(Rw::Space(u64::MAX)),
        2 => (0u8..4, 0usize..7, one_of(&["zz1", "zz-2", "zz_3", "_zz4", "renamed"])).prop_map(|(k, i, n)| Rw::Rename(k, i, n)),
        2 => any::<u64>().prop_map(Rw::DashSwap),
        2 => (0usize..12).prop_map(Rw::Hoist),
        1 => ((0usize..12), any::<bool>()).prop_map(|(k, w)| Rw::Debug(k, w)),
        3 => ((0usize..10), (1usize..6)).prop_map(|(a, n)| Rw::ToPartial(a, a + n)),
    ]
    .boxed()
}

fn cases() -> impl Strategy<Value = Case> {
    (program(), proptest::collection::vec(rewrite(), 1..=6)).prop_map(|(top, rewrites)| Case { top, rewrites })
}

// ---------- rendering ----------

#[derive(Clone)]
struct Names {
    vars: Vec<String>,
    funs: Vec<String>,
    mixins: Vec<String>,
    locals: Vec<String>,
    /// swap seed: 0 = never
    dash_seed: u64,
    /// white-space seed: 0 = canonical
    space_seed: u64,
    counter: std::cell::Cell<u64>,
}

impl Names {
    fn base() -> Names {
        let v = |t: &[&str]| t.iter().map(|s| s.to_string()).collect::<Vec<_>>();
        Names { vars: v(VARS), funs: v(FUNS), mixins: v(MIXINS), locals: v(LOCALS), dash_seed: 0, space_seed: 0, counter: std::cell::Cell::new(0) }
    }
    fn next(&self, seed: u64) -> u64 {
        let n = self.counter.get() + 1;
        self.counter.set(n);
        // splitmix64
        let mut z = seed.wrapping_add(n.wrapping_mul(0x9E3779B97F4A7C15));
        z = (z ^ (z >> 30)).wrapping_mul(0xBF58476D1CE4E5B9);
        z = (z ^ (z >> 27)).wrapping_mul(0x94D049BB133111EB);
        z ^ (z >> 31)
    }
    /// one occurrence of a name
    fn occ(&self, n: &str) -> String {
        if self.dash_seed != 0 && self.next(self.dash_seed) % 2 == 0 {
            n.chars().map(|c| if c == '-' { '_' } else if c == '_' { '-' } else { c }).collect()
        } else {
            n.to_string()
        }
    }
    /// a gap where white space is present in the canonical form
    fn gap(&self, canonical: &str) -> String {
        if self.space_seed == 0 {
            return canonical.to_string();
        }
        if self.space_seed == u64::MAX {
            // a silent comment in every gap
            return " // silent\n".into();
        }
        match self.next(self.space_seed) % 7 {
            0 | 1 => canonical.to_string(),
            2 => "  ".into(),
            3 => "\n".into(),
            4 => " \t ".into(),
            5 => " // silent\n".into(),
            _ => "\n\n  ".into(),
        }
    }
}

fn rv(v: &V, n: &Names, out: &mut String) {
    match v {
        V::Num(x, u) => out.push_str(&format!("{x}{u}")),
        V::Ident(s) => out.push_str(s),
        V::Str(s) => out.push_str(&format!("\"{s}\"")),
        V::Var(i) => out.push_str(&format!("${}", n.occ(&n.vars[*i % n.vars.len()]))),
        V::Local(i) => out.push_str(&format!("${}", n.occ(&n.locals[*i % n.locals.len()]))),
        V::Fresh(k) => out.push_str(&format!("$fresh-{k}")),
        V::Call(f, args) => {
            out.push_str(&n.occ(&n.funs[*f % n.funs.len()]));
            out.push('(');
            for (i, a) in args.iter().enumerate() {
                if i > 0 {
                    out.push(',');
                    out.push_str(&n.gap(" "));
                }
                rv(a, n, out);
            }
            out.push(')');
        }
        V::Builtin(f, args) => {
            out.push_str(f);
            out.push('(');
            for (i, a) in args.iter().enumerate() {
                if i > 0 {
                    out.push(',');
                    out.push_str(&n.gap(" "));
                }
                rv(a, n, out);
            }
            out.push(')');
        }
        V::Bin(a, o, b) => {
            out.push('(');
            rv(a, n, out);
            out.push_str(&n.gap(" "));
            out.push_str(if *o == '=' { "==" } else if *o == '+' { "+" } else if *o == '-' { "-" } else { "*" });
            out.push_str(&n.gap(" "));
            rv(b, n, out);
            out.push(')');
        }
        V::List(items) => {
            out.push('(');
            for (i, a) in items.iter().enumerate() {
                if i > 0 {
                    out.push_str(&n.gap(" "));
                }
                rv(a, n, out);
            }
            out.push(')');
        }
        V::MapGet(pairs, k) => {
            out.push_str("map-get((");
            for (i, (key, a)) in pairs.iter().enumerate() {
                if i > 0 {
                    out.push(',');
                    out.push_str(&n.gap(" "));
                }
                out.push_str(key);
                // white space is allowed on both sides of the colon
                out.push_str(&n.gap(""));
                out.push(':');
                out.push_str(&n.gap(" "));
                rv(a, n, out);
            }
            out.push_str("),");
            out.push_str(&n.gap(" "));
            out.push_str(&format!("k{})", k % pairs.len()));
        }
    }
}

fn rs_(v: &[S], n: &Names, ind: usize, top: bool, out: &mut String) {
    let pad = "  ".repeat(ind);
    for s in v {
        out.push_str(&pad);
        match s {
            S::Decl(p, v) => {
                out.push_str(p);
                out.push(':');
                out.push_str(&n.gap(" "));
                rv(v, n, out);
                out.push(';');
            }
            S::Set(g, v) => {
                out.push_str(&format!("${}:", n.occ(&n.vars[*g % n.vars.len()])));
                out.push_str(&n.gap(" "));
                rv(v, n, out);
                if !top {
                    out.push_str(&n.gap(" "));
                    out.push_str("!global");
                }
                out.push(';');
            }
            S::FreshDef(k, v) => {
                out.push_str(&format!("$fresh-{k}:"));
                out.push_str(&n.gap(" "));
                rv(v, n, out);
                out.push(';');
            }
            S::Rule(sel, b) => {
                out.push_str(sel);
                out.push_str(&n.gap(" "));
                out.push('{');
                out.push_str(&n.gap("\n"));
                rs_(b, n, ind + 1, false, out);
                out.push_str(&pad);
                out.push('}');
            }
            S::Include(m, args) => {
                out.push_str("@include");
                out.push_str(&n.gap(" "));
                out.push_str(&n.occ(&n.mixins[*m % n.mixins.len()]));
                out.push('(');
                for a in args {
                    rv(a, n, out);
                }
                out.push_str(");");
            }
            S::If(c, a, b) => {
                out.push_str("@if");
                out.push_str(&n.gap(" "));
                rv(c, n, out);
                out.push_str(&n.gap(" "));
                out.push('{');
                out.push_str(&n.gap("\n"));
                rs_(a, n, ind + 1, top, out);
                out.push_str(&pad);
                out.push('}');
                out.push_str(&n.gap(" "));
                out.push_str("@else");
                out.push_str(&n.gap(" "));
                out.push('{');
                out.push_str(&n.gap("\n"));
                rs_(b, n, ind + 1, top, out);
                out.push_str(&pad);
                out.push('}');
            }
            S::Each(l, items, b) => {
                out.push_str("@each");
                out.push_str(&n.gap(" "));
                out.push_str(&format!("${}", n.occ(&n.locals[*l % n.locals.len()])));
                out.push_str(&n.gap(" "));
                out.push_str("in");
                out.push_str(&n.gap(" "));
                for (i, a) in items.iter().enumerate() {
                    if i > 0 {
                        out.push(',');
                        out.push_str(&n.gap(" "));
                    }
                    rv(a, n, out);
                }
                out.push_str(&n.gap(" "));
                out.push('{');
                out.push_str(&n.gap("\n"));
                // inside a loop at top level, assignments need !global to reach the global
                rs_(b, n, ind + 1, false, out);
                out.push_str(&pad);
                out.push('}');
            }
            S::FnDef(f, v) => {
                out.push_str("@function");
                out.push_str(&n.gap(" "));
                out.push_str(&n.occ(&n.funs[*f % n.funs.len()]));
                out.push_str(&format!("(${})", n.occ(&n.locals[0])));
                out.push_str(&n.gap(" "));
                out.push('{');
                out.push_str(&n.gap("\n"));
                out.push_str(&pad);
                out.push_str("  @return");
                out.push_str(&n.gap(" "));
                rv(v, n, out);
                out.push(';');
                out.push_str(&n.gap("\n"));
                out.push_str(&pad);
                out.push('}');
            }
            S::MixinDef(m, b) => {
                out.push_str("@mixin");
                out.push_str(&n.gap(" "));
                out.push_str(&n.occ(&n.mixins[*m % n.mixins.len()]));
                out.push_str(&format!("(${})", n.occ(&n.locals[0])));
                out.push_str(&n.gap(" "));
                out.push('{');
                out.push_str(&n.gap("\n"));
                rs_(b, n, ind + 1, false, out);
                out.push_str(&pad);
                out.push('}');
            }
            S::Debug(warn, t) => {
                out.push_str(if *warn { "@warn" } else { "@debug" });
                out.push_str(&n.gap(" "));
                out.push_str(&format!("\"{t}\";"));
            }
        }
        out.push_str(&n.gap("\n"));
    }
}

/// k-th statement/declaration in document order: apply `f` to the containing list and the index
fn nth_stmt(v: &mut Vec<S>, k: &mut usize, only_decl: bool, f: &mut dyn FnMut(&mut Vec<S>, usize)) -> bool {
    let mut i = 0;
    while i < v.len() {
        let is_target = if only_decl { matches!(v[i], S::Decl(..)) } else { true };
        if is_target {
            if *k == 0 {
                f(v, i);
                return true;
            }
            *k -= 1;
        }
        let done = match &mut v[i] {
            S::Rule(_, b) | S::MixinDef(_, b) | S::Each(_, _, b) => nth_stmt(b, k, only_decl, f),
            S::If(_, a, b) => nth_stmt(a, k, only_decl, f) || nth_stmt(b, k, only_decl, f),
            _ => false,
        };
        if done {
            return true;
        }
        i += 1;
    }
    false
}

fn count_stmts(v: &[S], only_decl: bool) -> usize {
    v.iter()
        .map(|s| {
            let own = usize::from(!only_decl || matches!(s, S::Decl(..)));
            own + match s {
                S::Rule(_, b) | S::MixinDef(_, b) | S::Each(_, _, b) => count_stmts(b, only_decl),
                S::If(_, a, b) => count_stmts(a, only_decl) + count_stmts(b, only_decl),
                _ => 0,
            }
        })
        .sum()
}

fn has_slash(v: &V) -> bool {
    match v {
        V::Str(s) | V::Ident(s) => s.contains('/'),
        V::Call(_, a) | V::Builtin(_, a) | V::List(a) => a.iter().any(has_slash),
        V::MapGet(p, _) => p.iter().any(|(_, v)| has_slash(v)),
        V::Bin(a, _, b) => has_slash(a) || has_slash(b),
        _ => false,
    }
}

impl Case {
    /// (files of the original, files of the rewritten program, rewrites that applied)
    pub fn build(&self) -> (Vec<(String, String)>, Vec<(String, String)>, Vec<String>) {
        let base = Names::base();
        let mut original = String::new();
        rs_(&self.top, &base, 0, true, &mut original);
        let mut top = self.top.clone();
        let mut names = Names::base();
        let mut applied = vec![];
        let mut partial: Option<(usize, usize)> = None;
        let mut fresh = 0usize;
        for rw in &self.rewrites {
            match rw {
                Rw::Space(seed) => {
                    names.space_seed = *seed | 1;
                    applied.push("white-space".to_string());
                }
                Rw::DashSwap(seed) => {
                    names.dash_seed = *seed | 1;
                    applied.push("dash-underscore".to_string());
                }
                Rw::Rename(kind, i, new) => {
                    let table = match kind {
                        0 => &mut names.vars,
                        1 => &mut names.funs,
                        2 => &mut names.mixins,
                        _ => &mut names.locals,
                    };
                    let i = i % table.len();
                    // consistent and collision-free: the new name gets kind and index as suffix (variables and locals share a name space)
                    // (a function name starting with `-` is not generated: `a -f(1)` reads as a subtraction or a
                    // negation in some positions, so that the `-`/`_` swap would not be meaning-preserving)
                    let new = if *kind == 1 { new.trim_start_matches(['_', '-']) } else { new.as_str() };
                    table[i] = format!("{new}{kind}x{i}");
                    applied.push(format!("rename-kind{kind}"));
                }
                Rw::Hoist(k) => {
                    let n = count_stmts(&top, true);
                    if n == 0 {
                        continue;
                    }
                    let mut kk = k % n;
                    let id = fresh;
                    let mut did = false;
                    nth_stmt(&mut top, &mut kk, true, &mut |list, i| {
                        if let S::Decl(p, v) = list[i].clone() {
                            if !has_slash(&v) {
                                list[i] = S::Decl(p, V::Fresh(id));
                                list.insert(i, S::FreshDef(id, v));
                                did = true;
                            }
                        }
                    });
                    if did {
                        fresh += 1;
                        applied.push("hoist-value".to_string());
                    }
                }
                Rw::Debug(k, warn) => {
                    let n = count_stmts(&top, false);
                    if n == 0 {
                        continue;
                    }
                    let mut kk = k % n;
                    nth_stmt(&mut top, &mut kk, false, &mut |list, i| list.insert(i, S::Debug(*warn, "note".into())));
                    applied.push(if *warn { "warn" } else { "debug" }.to_string());
                }
                Rw::ToPartial(a, b) => {
                    if partial.is_none() && !self.top.is_empty() {
                        // positions in the original top-level list
                        let a = a % self.top.len();
                        let b = (*b).min(self.top.len()).max(a + 1);
                        partial = Some((a, b));
                        applied.push("to-partial".to_string());
                    }
                }
            }
        }
        let mut files = vec![];
        let main = match partial {
            None => {
                let mut t = String::new();
                rs_(&top, &names, 0, true, &mut t);
                t
            }
            Some((a, b)) => {
                // positions refer to the original top-level list; inserted statements shift them, so locate by
                // counting original (non-inserted) top-level statements
                let is_inserted = |s: &S| matches!(s, S::Debug(..) | S::FreshDef(..));
                let mut idx = vec![];
                for (i, s) in top.iter().enumerate() {
                    if !is_inserted(s) {
                        idx.push(i);
                    }
                }
                let (ia, ib) = (idx[a], if b < idx.len() { idx[b] } else { top.len() });
                let mut t = String::new();
                rs_(&top[..ia], &names, 0, true, &mut t);
                t.push_str("@import");
                t.push_str(&names.gap(" "));
                t.push_str("\"part\";\n");
                rs_(&top[ib..], &names, 0, true, &mut t);
                let mut p = String::new();
                rs_(&top[ia..ib], &names, 0, true, &mut p);
                files.push(("_part.scss".to_string(), p));
                t
            }
        };
        files.insert(0, ("main.scss".to_string(), main));
        (vec![("main.scss".to_string(), original)], files, applied)
    }
}

/// is a global variable assigned again after its definition (inside a block with !global, or at top level)?
fn reassigns_global(top: &[S]) -> bool {
    fn inner(v: &[S]) -> bool {
        v.iter().any(|s| match s {
            S::Set(..) => true,
            S::Rule(_, b) | S::MixinDef(_, b) | S::Each(_, _, b) => inner(b),
            S::If(_, a, b) => inner(a) || inner(b),
            _ => false,
        })
    }
    let mut defined = std::collections::BTreeSet::new();
    top.iter().any(|s| match s {
        S::Set(g, _) => !defined.insert(*g),
        S::Rule(_, b) | S::MixinDef(_, b) | S::Each(_, _, b) => inner(b),
        S::If(_, a, b) => inner(a) || inner(b),
        _ => false,
    })
}

fn same(a: &Res, b: &Res) -> bool {
    match (a, b) {
        (Res::Ok(x), Res::Ok(y)) => x == y,
        (Res::Err { .. }, Res::Err { .. }) => true,
        _ => false,
    }
}

impl Prop for C35 {
    type Case = Case;
    const ID: &'static str = "C35";
    fn new() -> Self {
        C35
    }
    fn rule(&self) -> String {
        "structured programs: 1..4 global variables (names with `-`, `_`, also leading), 0..3 functions and mixins, then rules nested to depth 3 with declarations, global assignments (!global inside blocks), @include, @if/@else, @each; values are numbers, identifiers, strings, variables, user and built-in calls, parenthesised arithmetic and lists. 1..6 rewrites per case: white space variation at places that already hold white space (more blanks, tabs, newlines, `// silent` comments); consistent renaming of a variable, function, mixin or local; swapping `-` and `_` in single occurrences of such names; putting a declaration's slash-free value into a fresh variable defined right before it; inserting @debug/@warn before a statement; moving a range of top-level statements into a partial loaded by @import at that place. Oracle: original and rewritten program give the same bytes, or both fail. Non-trivial: the original compiles to non-empty CSS and at least one rewrite applied; distinct by case".into()
    }
    fn assumptions(&self) -> Vec<String> {
        vec!["new names come from a pool that cannot collide with existing or built-in names; error texts are not compared (they quote names and positions)".into()]
    }
    fn prepare(&self, _tier: Tier) {
        // @debug and @warn write to stderr
        unsafe {
            let fd = libc::open(c"/dev/null".as_ptr(), libc::O_WRONLY);
            if fd >= 0 {
                libc::dup2(fd, 2);
            }
        }
    }
    fn phases(&self, tier: Tier) -> Vec<Phase<Case>> {
        vec![Phase::random("rewrites", cases(), tier.pick(30_000, 800_000))]
    }
    fn render(&self, c: &Case) -> serde_json::Value {
        let (a, b, applied) = c.build();
        serde_json::json!({"original": a, "rewritten": b, "applied": applied})
    }
    fn check(&self, c: &Case) -> Verdict {
        let (orig, rewritten, applied) = c.build();
        let o = Opts::default();
        let r0 = rs::compile_files(&orig, "main.scss", &o);
        let r1 = rs::compile_files(&rewritten, "main.scss", &o);
        if let Res::Panic(m) = &r1 {
            if !matches!(r0, Res::Panic(_)) {
                return Verdict::fail(format!("the rewritten program panics ({m}) but the original gives {}", r0.brief()));
            }
        }
        if !same(&r0, &r1) && !(matches!(r0, Res::Panic(_)) && matches!(r1, Res::Panic(_))) {
            let files = |f: &[(String, String)]| f.iter().map(|(n, t)| format!("--- {n}\n{t}")).collect::<String>();
            if applied.iter().any(|a| a == "to-partial") && reassigns_global(&c.top) {
                return Verdict::known("C35-import-scope-copy", format!("rewrites {applied:?} change the result.\noriginal:\n{}\n=> {}\nrewritten:\n{}\n=> {}", files(&orig), r0.brief(), files(&rewritten), r1.brief()));
            }
            return Verdict::fail(format!("rewrites {applied:?} change the result.\noriginal:\n{}\n=> {}\nrewritten:\n{}\n=> {}", files(&orig), r0.brief(), files(&rewritten), r1.brief()));
        }
        let ok = matches!(&r0, Res::Ok(b) if !b.is_empty());
        let mut v = Verdict::pass(ok && !applied.is_empty()).class_if(!ok, "error-or-empty");
        if let Res::Err { text, .. } = &r0 {
            let t: String = text.lines().next().unwrap_or("").chars().filter(|c| !c.is_ascii_digit()).take(28).collect();
            v = v.class(format!("error: {t}"));
        }
        if matches!(&r0, Res::Ok(b) if b.is_empty()) {
            v = v.class("empty-output");
        }
        let mut seen: BTreeMap<&str, ()> = BTreeMap::new();
        for a in &applied {
            if seen.insert(a.as_str(), ()).is_none() {
                v = v.class(a.clone());
            }
        }
        v
    }
}
