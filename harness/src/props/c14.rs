//! C14 `not`, `and`, `or` follow Sass truthiness and evaluate lazily.

use crate::engine::{Phase, Prop, Tier, Verdict};
use crate::rs::{self, Res};
use proptest::prelude::*;
use serde::{Deserialize, Serialize};

pub struct C14;

#[derive(Clone, Debug, Serialize, Deserialize, PartialEq)]
pub enum E {
    /// plain value: (source text, truthy)
    Val(String, bool),
    /// `bump(<value>)`: records a side effect when evaluated
    Bump(String, bool),
    /// an operand whose evaluation fails: boom() | $undefined | math.nope(1)
    Fail(String),
    Not(Box<E>),
    And(Box<E>, Box<E>),
    Or(Box<E>, Box<E>),
}

#[derive(Clone, Debug, Serialize, Deserialize)]
pub struct Case {
    pub e: E,
}

pub const VALUES: &[(&str, bool)] = &[
    ("true", true), ("false", false), ("null", false), ("0", true), ("1", true), ("-1", true), ("0px", true), ("math.div(0,0)", true), ("math.div(1,0)", true), ("\"\"", true), ("\"a\"", true), ("a", true), ("unquote(\"\")", true),
    ("()", true), ("[]", true), ("(1 2)", true), ("(null,)", true), ("(false,)", true), ("[false]", true), ("(a: 1)", true), ("map.remove((a: 1), a)", true), ("red", true), ("transparent", true), ("rgba(0,0,0,0)", true),
    ("get-function(\"red\")", true), ("calc(1px + 1%)", true), ("not true", false), ("not false", true), ("1 == 2", false), ("1 == 1", true), ("$t", true), ("$f", false), ("$n", false), ("$z", true),
];

const PRELUDE: &str = "$count: 0; $t: true; $f: false; $n: null; $z: 0;\n@function bump($v) { $count: $count + 1 !global; @return $v; }\n@function boom() { @error \"evaluated\"; }\n";

fn print(e: &E) -> String {
    match e {
        E::Val(t, _) => {
            if t.contains(' ') && !t.starts_with('(') && !t.starts_with('"') && !t.contains('(') {
                format!("({t})")
            } else if t.starts_with("not ") || t.contains(" == ") {
                format!("({t})")
            } else {
                t.clone()
            }
        }
        E::Bump(t, _) => format!("bump({t})"),
        E::Fail(t) => t.clone(),
        E::Not(x) => match **x {
            E::And(..) | E::Or(..) => format!("not ({})", print(x)),
            _ => format!("not {}", print(x)),
        },
        E::And(a, b) => {
            let pa = if matches!(**a, E::Or(..)) { format!("({})", print(a)) } else { print(a) };
            let pb = if matches!(**b, E::Or(..) | E::And(..)) { format!("({})", print(b)) } else { print(b) };
            format!("{pa} and {pb}")
        }
        E::Or(a, b) => {
            let pb = if matches!(**b, E::Or(..)) { format!("({})", print(b)) } else { print(b) };
            format!("{} or {pb}", print(a))
        }
    }
}

/// reference: Ok((text of the value that results, truthy, number of bumps)) or Err(()) when a failing operand is evaluated
fn eval(e: &E) -> Result<(String, bool, u32), ()> {
    match e {
        E::Val(t, tr) => Ok((print(&E::Val(t.clone(), *tr)), *tr, 0)),
        E::Bump(t, tr) => Ok((t.clone(), *tr, 1)),
        E::Fail(_) => Err(()),
        E::Not(x) => {
            let (_, tr, n) = eval(x)?;
            Ok(((!tr).to_string(), !tr, n))
        }
        E::And(a, b) => {
            let (ta, tra, na) = eval(a)?;
            if !tra {
                Ok((ta, tra, na))
            } else {
                let (tb, trb, nb) = eval(b)?;
                Ok((tb, trb, na + nb))
            }
        }
        E::Or(a, b) => {
            let (ta, tra, na) = eval(a)?;
            if tra {
                Ok((ta, tra, na))
            } else {
                let (tb, trb, nb) = eval(b)?;
                Ok((tb, trb, na + nb))
            }
        }
    }
}

fn leaf() -> impl Strategy<Value = E> {
    prop_oneof![
        6 => proptest::sample::select(VALUES).prop_map(|(t, b)| E::Val(t.to_string(), b)),
        3 => proptest::sample::select(VALUES).prop_map(|(t, b)| E::Bump(t.to_string(), b)),
        2 => proptest::sample::select(&["boom()", "$undefined", "math.nope(1)", "nth((), 1)", "1px + 1s * boom()"][..]).prop_map(|t| E::Fail(t.to_string())),
    ]
}

fn tree() -> impl Strategy<Value = Case> {
    leaf()
        .prop_recursive(3, 8, 2, |inner| {
            prop_oneof![
                2 => inner.clone().prop_map(|a| E::Not(Box::new(a))),
                3 => (inner.clone(), inner.clone()).prop_map(|(a, b)| E::And(Box::new(a), Box::new(b))),
                3 => (inner.clone(), inner.clone()).prop_map(|(a, b)| E::Or(Box::new(a), Box::new(b))),
            ]
        })
        .prop_map(|e| Case { e })
}

/// every operand kind under not / and / or with every kind of right operand (exhaustive, depth 1)
fn enumerated() -> Vec<Case> {
    let mut v = vec![];
    let fails = ["boom()", "$undefined", "math.nope(1)"];
    for (t, b) in VALUES {
        let a = E::Val(t.to_string(), *b);
        v.push(Case { e: E::Not(Box::new(a.clone())) });
        v.push(Case { e: E::Not(Box::new(E::Bump(t.to_string(), *b))) });
        for (t2, b2) in VALUES {
            for right in [E::Val(t2.to_string(), *b2), E::Bump(t2.to_string(), *b2)] {
                v.push(Case { e: E::And(Box::new(a.clone()), Box::new(right.clone())) });
                v.push(Case { e: E::Or(Box::new(a.clone()), Box::new(right)) });
            }
        }
        for f in fails {
            v.push(Case { e: E::And(Box::new(a.clone()), Box::new(E::Fail(f.to_string()))) });
            v.push(Case { e: E::Or(Box::new(a.clone()), Box::new(E::Fail(f.to_string()))) });
            v.push(Case { e: E::And(Box::new(E::Fail(f.to_string())), Box::new(a.clone())) });
        }
    }
    v
}

fn has_not_map(e: &E) -> bool {
    match e {
        // a `not` whose operand evaluates to a map
        E::Not(x) => eval(x).is_ok_and(|(t, _, _)| t.starts_with("(a:") || t.starts_with("map.")) || has_not_map(x),
        E::And(a, b) | E::Or(a, b) => has_not_map(a) || has_not_map(b),
        _ => false,
    }
}

impl Prop for C14 {
    type Case = Case;
    const ID: &'static str = "C14";
    fn new() -> Self {
        C14
    }
    fn rule(&self) -> String {
        "expressions over 34 operand texts of every kind (booleans, null, 0 and other numbers, NaN, infinity, empty and non-empty strings, empty/bracketed/nested lists, lists holding only null/false, maps, empty map, colours incl. transparent, function references, calculations, variables) combined with not/and/or. Exhaustive at depth 1: not x for every x, x and y / x or y for every pair with y plain or side-effecting (bump() increments a global counter) and with y failing (@error in a function, undefined variable, undefined module function); random trees to depth 3. Oracle: truthiness model (falsey iff false or null) giving the operand whose value must result (compared through inspect()), the number of side effects, and whether a failing operand is reached. Non-trivial: an and/or whose right operand is side-effecting or failing, or a not of a non-boolean; distinct by tree".into()
    }
    fn phases(&self, tier: Tier) -> Vec<Phase<Case>> {
        vec![Phase::enumerate("depth-1", enumerated().into_iter()), Phase::random("trees", tree(), tier.pick(20_000, 1_000_000))]
    }
    fn render(&self, c: &Case) -> serde_json::Value {
        serde_json::json!({"expr": print(&c.e), "expected": format!("{:?}", eval(&c.e))})
    }
    fn check(&self, c: &Case) -> Verdict {
        let text = print(&c.e);
        let want = eval(&c.e);
        let exprs = match &want {
            Ok((t, _, _)) => vec![format!("inspect({text})"), "$count".to_string(), format!("inspect({t})"), format!("({text}) == ({t})")],
            Err(()) => vec![format!("inspect({text})"), "$count".to_string()],
        };
        let got = rs::probes_with(PRELUDE, &exprs, 10);
        fn lazy(e: &E) -> bool {
            match e {
                E::And(_, b) | E::Or(_, b) => matches!(**b, E::Bump(..) | E::Fail(_)) || lazy(b),
                E::Not(x) => !matches!(**x, E::Val(ref t, _) if t == "true" || t == "false") || lazy(x),
                _ => false,
            }
        }
        let nontrivial = lazy(&c.e);
        let fail = |msg: String| if has_not_map(&c.e) { Verdict::known("C14-not-map", msg) } else { Verdict::fail(msg) };
        match (&want, got) {
            (_, Err(Res::Panic(m))) => Verdict::fail(format!("`{text}`: panic {m}")),
            (Err(()), Err(_)) => Verdict::pass(nontrivial).class("error-reached"),
            (Err(()), Ok(v)) => fail(format!("`{text}` must fail (a failing operand is needed) but gave {:?}", v.first())),
            (Ok((t, _, _)), Err(e)) => fail(format!("`{text}` should give {t} but fails: {}", e.brief().chars().take(120).collect::<String>())),
            (Ok((t, _, n)), Ok(v)) => {
                let (val, count, expect) = (v.first().cloned().flatten(), v.get(1).cloned().flatten(), v.get(2).cloned().flatten());
                // same printed form, or equal under `==` (inspect keeps the parentheses of `(null)`)
                let eq = v.get(3).cloned().flatten();
                if val != expect && eq.as_deref() != Some("true") {
                    return fail(format!("`{text}` gave {val:?}, expected the value of `{t}` = {expect:?}"));
                }
                if count.as_deref() != Some(&n.to_string()) {
                    return fail(format!("`{text}` evaluated side-effecting operands {count:?} times, expected {n}"));
                }
                Verdict::pass(nontrivial).class_if(*n > 0, "side-effect-counted")
            }
        }
    }
}
