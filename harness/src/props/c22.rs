//! C22 Placeholder selectors never reach the output.

use crate::cssread::{self, Node};
use crate::engine::{Phase, Prop, Tier, Verdict};
use crate::gen::one_of;
use crate::rs::{self, Opts, Res};
use crate::selnorm;
use proptest::prelude::*;
use serde::{Deserialize, Serialize};

pub struct C22;

/// a selector as a small tree so that the reference filter can work on structure
#[derive(Clone, Debug, Serialize, Deserialize, PartialEq)]
pub enum Simple {
    Plain(String),
    Placeholder(String),
    /// name (without colons), positive (is/where/matches/any/has/slotted...) or :not, members
    Pseudo { name: String, members: Vec<Cx> },
}
#[derive(Clone, Debug, Serialize, Deserialize, PartialEq)]
pub struct Cx {
    pub comps: Vec<Vec<Simple>>,
    pub combs: Vec<char>,
}

#[derive(Clone, Debug, Serialize, Deserialize)]
pub struct Case {
    /// nested rules: each level a selector list; level 0 outermost
    pub levels: Vec<Vec<Cx>>,
}

fn show_simple(s: &Simple) -> String {
    match s {
        Simple::Plain(t) => t.clone(),
        Simple::Placeholder(n) => format!("%{n}"),
        Simple::Pseudo { name, members } => {
            let colons = if name == "slotted" { "::" } else { ":" };
            format!("{colons}{name}({})", members.iter().map(show).collect::<Vec<_>>().join(", "))
        }
    }
}
fn show_compound(c: &[Simple]) -> String {
    // type first, as written by the generator
    c.iter().map(show_simple).collect::<String>()
}
pub fn show(c: &Cx) -> String {
    let mut s = String::new();
    for (i, comp) in c.comps.iter().enumerate() {
        if i > 0 {
            match c.combs[i - 1] {
                ' ' => s.push(' '),
                k => {
                    s.push(' ');
                    s.push(k);
                    s.push(' ');
                }
            }
        }
        s.push_str(&show_compound(comp));
    }
    s
}

/// reference filter: None = the complex selector is removed
fn keep(c: &Cx) -> Option<Cx> {
    let mut comps = vec![];
    for comp in &c.comps {
        let mut out: Vec<Simple> = vec![];
        for s in comp {
            match s {
                Simple::Placeholder(_) => return None,
                Simple::Plain(t) => out.push(Simple::Plain(t.clone())),
                Simple::Pseudo { name, members } => {
                    let kept: Vec<Cx> = members.iter().filter_map(keep).collect();
                    if name == "not" {
                        // :not loses the members that can never match; an empty :not() disappears
                        if !kept.is_empty() {
                            out.push(Simple::Pseudo { name: name.clone(), members: kept });
                        }
                    } else if kept.is_empty() {
                        // a positive pseudo without members matches nothing
                        return None;
                    } else {
                        out.push(Simple::Pseudo { name: name.clone(), members: kept });
                    }
                }
            }
        }
        if out.is_empty() {
            out.push(Simple::Plain("*".into()));
        }
        comps.push(out);
    }
    Some(Cx { comps, combs: c.combs.clone() })
}

fn simple(depth: u32) -> BoxedStrategy<Simple> {
    let leaf = prop_oneof![
        6 => one_of(&[".a", ".b", ".c", "#i", "[k]", "[k]", "[m=v]", ":hover", ":focus"]).prop_map(Simple::Plain),
        2 => one_of(&["p", "q"]).prop_map(Simple::Placeholder),
    ];
    if depth == 0 {
        return leaf.boxed();
    }
    prop_oneof![
        6 => leaf,
        3 => (one_of(&["not", "is", "where", "matches", "any", "has", "slotted", "host"]), proptest::collection::vec(complex(depth - 1), 1..3)).prop_map(|(name, members)| Simple::Pseudo { name, members }),
    ]
    .boxed()
}

fn compound(depth: u32) -> BoxedStrategy<Vec<Simple>> {
    (proptest::option::weighted(0.4, one_of(&["a", "div", "li"])), proptest::collection::vec(simple(depth), 0..3)).prop_map(|(t, mut v)| {
        // a pseudo-element style pseudo last
        v.sort_by_key(|s| matches!(s, Simple::Pseudo { name, .. } if name == "slotted"));
        if let Some(t) = t {
            v.insert(0, Simple::Plain(t));
        }
        if v.is_empty() {
            v.push(Simple::Plain(".z".into()));
        }
        v
    })
    .boxed()
}

fn complex(depth: u32) -> BoxedStrategy<Cx> {
    (proptest::collection::vec(compound(depth), 1..3), proptest::collection::vec(proptest::sample::select(&[' ', ' ', '>', '+', '~'][..]), 2)).prop_map(|(comps, mut combs)| {
        combs.truncate(comps.len() - 1);
        Cx { comps, combs }
    })
    .boxed()
}

fn cases() -> impl Strategy<Value = Case> {
    (proptest::collection::vec(proptest::collection::vec(complex(2), 1..4), 1..4), proptest::collection::vec(any::<bool>(), 12)).prop_map(|(mut levels, amp)| {
        // below the outermost level, some members continue the parent compound: `&%p`, `&.a:not(%q)` (the first
        // compound must not start with a type selector then)
        // (only under a single parent selector: with several parents and a mix of `&` and descendant members the order
        // of the product is C19's subject, and it differs between a list and the same list with members removed)
        let mut k = 0;
        let single_parent = levels.first().is_some_and(|l| l.len() == 1);
        let n_levels = levels.len();
        for (li, level) in levels.iter_mut().enumerate().skip(1) {
            if !single_parent || (li + 1 < n_levels && level.len() != 1) {
                break;
            }
            for member in level.iter_mut() {
                let first = &mut member.comps[0];
                let typed = matches!(first.first(), Some(Simple::Plain(t)) if t.starts_with(|c: char| c.is_ascii_alphabetic()));
                if !typed && amp[k % amp.len()] && k % 3 == 0 {
                    first.insert(0, Simple::Plain("&".into()));
                }
                k += 1;
            }
        }
        Case { levels }
    })
}

fn source(levels: &[Vec<String>]) -> String {
    let mut s = String::new();
    for (l, sels) in levels.iter().enumerate() {
        s.push_str(&"  ".repeat(l));
        s.push_str(&sels.join(", "));
        s.push_str(" {\n");
        s.push_str(&"  ".repeat(l + 1));
        s.push_str(&format!("p{l}: {l};\n"));
    }
    for l in (0..levels.len()).rev() {
        s.push_str(&"  ".repeat(l));
        s.push_str("}\n");
    }
    s
}

fn rules(out: &str) -> Result<Vec<(String, Vec<String>)>, String> {
    let nodes = cssread::parse_sheet(cssread::strip_marker(out))?;
    Ok(nodes.iter().filter_map(|n| match n { Node::Rule { prelude, body } => Some((prelude.clone(), body.iter().filter_map(|d| match d { Node::Decl { name, .. } => Some(name.clone()), _ => None }).collect())), _ => None }).collect())
}

impl Prop for C22 {
    type Case = Case;
    const ID: &'static str = "C22";
    fn new() -> Self {
        C22
    }
    fn rule(&self) -> String {
        "nests of 1..3 style rules whose selector lists (1..3 complex selectors of 1..2 compounds) mix ordinary simple selectors, placeholders %p/%q and :not/:is/:where/:matches/:any/:has/::slotted/:host with selector-list arguments nested two deep, placeholders at any depth; below the outermost rule some members continue the parent compound with `&` (`&%p`, `&.a:not(%q)`). Oracle: (1) no `%` in any emitted selector; (2) metamorphic: the output must equal the output of the same nest written with the reference-filtered selector lists (a complex selector with a top-level placeholder is removed; a positive pseudo loses placeholder members and kills the selector when none is left; :not loses them and disappears when empty), rule by rule after the independent canonicaliser; when a level filters to nothing, that rule and everything nested in it must be absent. Non-trivial: a placeholder inside a pseudo argument, or a list that loses some but not all members; distinct by nest".into()
    }
    fn phases(&self, tier: Tier) -> Vec<Phase<Case>> {
        vec![Phase::random("nests", cases(), tier.pick(30_000, 1_500_000))]
    }
    fn render(&self, c: &Case) -> serde_json::Value {
        serde_json::json!({"src": source(&c.levels.iter().map(|l| l.iter().map(show).collect()).collect::<Vec<_>>())})
    }
    fn check(&self, c: &Case) -> Verdict {
        let written: Vec<Vec<String>> = c.levels.iter().map(|l| l.iter().map(show).collect()).collect();
        let src = source(&written);
        // the same nest without what the filter removes; levels below an emptied level vanish
        let mut filtered: Vec<Vec<String>> = vec![];
        for l in &c.levels {
            let kept: Vec<String> = l.iter().filter_map(keep).map(|c| show(&c)).collect();
            if kept.is_empty() {
                break;
            }
            filtered.push(kept);
        }
        let has_ph = src.contains('%');
        let deep = c.levels.iter().flatten().any(|cx| cx.comps.iter().flatten().any(|s| matches!(s, Simple::Pseudo { members, .. } if members.iter().any(|m| show(m).contains('%')))));
        let partial = c.levels.iter().any(|l| { let k = l.iter().filter(|c| keep(c).is_some()).count(); k > 0 && k < l.len() });
        let out = match rs::compile(src.as_bytes(), &Opts::default()) {
            Res::Ok(o) => String::from_utf8_lossy(&o).to_string(),
            Res::Panic(m) => return Verdict::fail(format!("panic: {m}\n{src}")),
            Res::Err { text, .. } => return Verdict::fail(format!("a valid nest fails: {}\n{src}", text.lines().next().unwrap_or(""))),
        };
        let got = match rules(&out) {
            Ok(r) => r,
            Err(e) => return Verdict::fail(format!("unreadable output ({e}): {out:?}")),
        };
        if let Some((sel, _)) = got.iter().find(|(sel, _)| sel.contains('%')) {
            return Verdict::fail(format!("a placeholder reaches the output in selector {sel:?}\n{src}"));
        }
        let want_out = if filtered.is_empty() {
            String::new()
        } else {
            match rs::compile(source(&filtered).as_bytes(), &Opts::default()) {
                Res::Ok(o) => String::from_utf8_lossy(&o).to_string(),
                r => return Verdict::discard(format!("domain: the placeholder-free twin does not compile: {}", r.brief().chars().take(80).collect::<String>())),
            }
        };
        let want = match rules(&want_out) {
            Ok(r) => r,
            Err(e) => return Verdict::discard(format!("domain: unreadable twin output: {e}")),
        };
        // a leading bare `*` ancestor (what is left of `:not(%p) .z`) is written or not; `* .z` and `.z` differ only
        // for the root element and the statement does not decide it
        let canon = |r: &Vec<(String, Vec<String>)>| -> Vec<(String, Vec<String>)> {
            r.iter().map(|(s, d)| (selnorm::split_list(s).iter().map(|c| { let c = selnorm::canon_complex(c); c.strip_prefix("* ").filter(|r| !r.starts_with(['>', '+', '~'])).map(|r| r.to_string()).unwrap_or(c) }).collect::<Vec<_>>().join(", "), d.clone())).collect()
        };
        // "the remaining selectors keep their text": the canonical form forgives a universal selector in front of
        // other simple selectors (`*[k]` for `[k]`), which rsass does not write on the unchanged tree; count those
        let redundant_stars = |r: &Vec<(String, Vec<String>)>| -> Vec<usize> {
            r.iter().map(|(s, _)| s.as_bytes().windows(2).filter(|w| w[0] == b'*' && matches!(w[1], b'.' | b'#' | b'[' | b':')).count()).collect()
        };
        // (one direction only: the generator writes no `*`, so a star the twin has and the output lacks is the twin's own
        // `*` for an emptied compound continued by `&`: `:not(%p) { &[k] {} }` is `[k]`, the twin `* { &[k] {} }` is `*[k]`)
        if canon(&got) == canon(&want) && redundant_stars(&got).iter().zip(redundant_stars(&want)).any(|(g, w)| *g > w) {
            return Verdict::fail(format!("with placeholders the output is {:?}, the same nest without the removed selectors gives {:?} (a universal selector was added)\n{src}", got.iter().map(|x| &x.0).collect::<Vec<_>>(), want.iter().map(|x| &x.0).collect::<Vec<_>>()));
        }
        if canon(&got) != canon(&want) {
            return Verdict::fail(format!("with placeholders the output is {:?}, the same nest without the removed selectors gives {:?}\n{src}", canon(&got), canon(&want)));
        }
        Verdict::pass(has_ph && (deep || partial)).class_if(deep, "placeholder-in-pseudo-argument").class_if(partial, "partly-filtered-list").class_if(filtered.len() < c.levels.len(), "rule-dropped")
    }
}
