//! C36 Comments are preserved as Sass specifies.

use crate::engine::{Phase, Prop, Tier, Verdict};
use crate::gen::one_of;
use crate::rs::{self, Opts, Res};
use proptest::prelude::*;
use serde::{Deserialize, Serialize};

pub struct C36;

/// an interpolation inside a comment
#[derive(Clone, Debug, Serialize, Deserialize)]
pub enum Ie {
    Add(u8, u8),
    /// innermost visible loop variable (a literal 7 when there is none)
    LoopVar,
    Str(String),
    /// `$g`, a global set at the top of the program
    Global,
}

#[derive(Clone, Debug, Serialize, Deserialize)]
pub struct Loud {
    pub id: u32,
    pub preserved: bool,
    /// literal text after the marker
    pub text: String,
    /// literal text right before the interpolation, and the interpolation
    pub interp: Option<(String, Ie)>,
    /// literal text at the end
    pub tail: String,
}

#[derive(Clone, Debug, Serialize, Deserialize)]
pub enum Stmt {
    Loud(Loud),
    /// `// SIL<k>x <text>`
    Silent(u32, String),
    /// declaration, maybe followed on the same line by a silent comment
    Decl(Option<u32>),
    Rule(String, Vec<Stmt>),
    /// number of iterations
    Each(u8, Vec<Stmt>),
    If(bool, Vec<Stmt>, Vec<Stmt>),
    /// @include m0
    Include,
    /// @include m1 { body }
    IncludeContent(Vec<Stmt>),
    Media(Vec<Stmt>),
}

#[derive(Clone, Debug, Serialize, Deserialize)]
pub struct Case {
    pub top: Vec<Stmt>,
    /// body of `@mixin m0`
    pub m0: Vec<Stmt>,
    /// body of `@mixin m1` around its `@content`
    pub m1_before: Vec<Stmt>,
    pub m1_after: Vec<Stmt>,
    /// contents of `_imp.scss`, loaded by `@import "imp"` at top[imp_at]
    pub imported: Option<(usize, Vec<Stmt>)>,
    /// contents of `_used.scss`, loaded by `@use "used"` first in the file
    pub used: Option<Vec<Stmt>>,
    /// a loud comment inside a function that is called
    pub in_function: Option<Loud>,
    /// an include of a mixin that is never included
    pub unused_mixin: Option<Loud>,
}

fn loud() -> BoxedStrategy<Loud> {
    let text = one_of(&["", " plain", " a  b", " x\n * y", " x\n   y", " // T1 not silent", " $v @if {}", " * star", " /x", " 100%", " a;b", " \"q\"", " #", " #x", " }", " {"]);
    let pre = one_of(&[" ", " #", " ##", " x#", " {", " $", " /", " *", " #{", ""]);
    let ie = prop_oneof![
        2 => (0u8..5, 0u8..5).prop_map(|(a, b)| Ie::Add(a, b)),
        3 => Just(Ie::LoopVar),
        1 => one_of(&["q", "a b", "x-y"]).prop_map(Ie::Str),
        1 => Just(Ie::Global),
    ];
    let tail = one_of(&["", " t", "#", " }", " *", " /", "!"]);
    (proptest::bool::weighted(0.3), text, proptest::option::weighted(0.5, (pre, ie)), tail)
        .prop_map(|(preserved, text, interp, tail)| {
            // ` #{` as literal text would open an interpolation
            let interp = interp.map(|(p, e)| (if p == " #{" { " # {".to_string() } else { p }, e));
            Loud { id: 0, preserved, text, interp, tail }
        })
        .boxed()
}

fn stmts(depth: u32, in_rule: bool, allow_include: bool) -> BoxedStrategy<Vec<Stmt>> {
    let leaf = prop_oneof![
        5 => loud().prop_map(Stmt::Loud),
        2 => one_of(&["", " plain", " /* X9 fake loud */", " #{1+1}", " a { b: c }"]).prop_map(|t| Stmt::Silent(0, t)),
    ];
    let mut opts: Vec<(u32, BoxedStrategy<Stmt>)> = vec![(6, leaf.boxed())];
    if in_rule {
        opts.push((2, proptest::option::weighted(0.3, Just(0u32)).prop_map(Stmt::Decl).boxed()));
    }
    if depth > 0 {
        let d = depth - 1;
        opts.push((2, (one_of(&["a", ".b", "c d", "&:hover", "e, f"]), stmts(d, true, allow_include)).prop_map(move |(s, b)| Stmt::Rule(if !in_rule && s.starts_with('&') { "g".into() } else { s }, b)).boxed()));
        opts.push((2, (0u8..4, stmts(d, in_rule, allow_include)).prop_map(|(n, b)| Stmt::Each(n, b)).boxed()));
        opts.push((2, (any::<bool>(), stmts(d, in_rule, allow_include), stmts(d, in_rule, allow_include)).prop_map(|(c, a, b)| Stmt::If(c, a, b)).boxed()));
        opts.push((1, stmts(d, in_rule, allow_include).prop_map(Stmt::Media).boxed()));
        if allow_include {
            opts.push((1, Just(Stmt::Include).boxed()));
            opts.push((1, stmts(d, in_rule, false).prop_map(Stmt::IncludeContent).boxed()));
        }
    }
    proptest::collection::vec(proptest::strategy::Union::new_weighted(opts), 0..4).boxed()
}

fn renumber(c: &mut Case) {
    fn go(v: &mut Vec<Stmt>, n: &mut u32) {
        for s in v {
            match s {
                Stmt::Loud(l) => {
                    *n += 1;
                    l.id = *n;
                }
                Stmt::Silent(id, _) => {
                    *n += 1;
                    *id = *n;
                }
                Stmt::Decl(Some(id)) => {
                    *n += 1;
                    *id = *n;
                }
                Stmt::Decl(None) | Stmt::Include => {}
                Stmt::Rule(_, b) | Stmt::Each(_, b) | Stmt::Media(b) | Stmt::IncludeContent(b) => go(b, n),
                Stmt::If(_, a, b) => {
                    go(a, n);
                    go(b, n);
                }
            }
        }
    }
    let mut n = 0;
    go(&mut c.top, &mut n);
    go(&mut c.m0, &mut n);
    go(&mut c.m1_before, &mut n);
    go(&mut c.m1_after, &mut n);
    if let Some((_, v)) = &mut c.imported {
        go(v, &mut n);
    }
    if let Some(v) = &mut c.used {
        go(v, &mut n);
    }
    for l in [&mut c.in_function, &mut c.unused_mixin].into_iter().flatten() {
        n += 1;
        l.id = n;
    }
}

fn cases() -> impl Strategy<Value = Case> {
    (
        stmts(3, false, true),
        stmts(2, false, false),
        stmts(1, false, false),
        stmts(1, false, false),
        proptest::option::weighted(0.3, (0usize..4, stmts(2, false, false))),
        proptest::option::weighted(0.3, stmts(2, false, false)),
        proptest::option::weighted(0.3, loud()),
        proptest::option::weighted(0.3, loud()),
    )
        .prop_map(|(top, m0, m1_before, m1_after, imported, used, in_function, unused_mixin)| {
            let mut c = Case { top, m0, m1_before, m1_after, imported, used, in_function, unused_mixin };
            renumber(&mut c);
            c
        })
}

// ---------- rendering ----------

fn render_loud(l: &Loud, loop_depth: usize, out: &mut String) {
    out.push_str(if l.preserved { "/*! P" } else { "/* L" });
    out.push_str(&format!("{}m", l.id));
    out.push_str(&l.text);
    if let Some((pre, e)) = &l.interp {
        out.push_str(pre);
        out.push_str("#{");
        match e {
            Ie::Add(a, b) => out.push_str(&format!("{a} + {b}")),
            Ie::LoopVar if loop_depth > 0 => out.push_str(&format!("$v{}", loop_depth - 1)),
            Ie::LoopVar => out.push('7'),
            Ie::Str(s) => out.push_str(&format!("\"{s}\"")),
            Ie::Global => out.push_str("$g"),
        }
        out.push('}');
    }
    out.push_str(&l.tail);
    out.push_str(" */");
}

fn render(v: &[Stmt], loop_depth: usize, ind: usize, out: &mut String) {
    let pad = "  ".repeat(ind);
    for s in v {
        out.push_str(&pad);
        match s {
            Stmt::Loud(l) => {
                render_loud(l, loop_depth, out);
                out.push('\n');
            }
            Stmt::Silent(id, t) => out.push_str(&format!("// SIL{id}x{t}\n")),
            Stmt::Decl(None) => out.push_str("p: v;\n"),
            Stmt::Decl(Some(id)) => out.push_str(&format!("p: v; // SIL{id}x trailing\n")),
            Stmt::Rule(sel, b) => {
                out.push_str(&format!("{sel} {{\n"));
                render(b, loop_depth, ind + 1, out);
                out.push_str(&format!("{pad}}}\n"));
            }
            Stmt::Each(n, b) => {
                let items: Vec<String> = (1..=*n).map(|i| format!("k{i}")).collect();
                out.push_str(&format!("@each $v{loop_depth} in ({}) {{\n", items.join(", ")));
                render(b, loop_depth + 1, ind + 1, out);
                out.push_str(&format!("{pad}}}\n"));
            }
            Stmt::If(c, a, b) => {
                out.push_str(&format!("@if {c} {{\n"));
                render(a, loop_depth, ind + 1, out);
                out.push_str(&format!("{pad}}} @else {{\n"));
                render(b, loop_depth, ind + 1, out);
                out.push_str(&format!("{pad}}}\n"));
            }
            Stmt::Include => out.push_str("@include m0;\n"),
            Stmt::IncludeContent(b) => {
                out.push_str("@include m1 {\n");
                render(b, loop_depth, ind + 1, out);
                out.push_str(&format!("{pad}}}\n"));
            }
            Stmt::Media(b) => {
                out.push_str("@media screen {\n");
                render(b, loop_depth, ind + 1, out);
                out.push_str(&format!("{pad}}}\n"));
            }
        }
    }
}

impl Case {
    pub fn files(&self) -> Vec<(String, String)> {
        let mut main = String::new();
        if self.used.is_some() {
            main.push_str("@use \"used\";\n");
        }
        main.push_str("$g: gv;\n");
        main.push_str("@mixin m0 {\n");
        render(&self.m0, 0, 1, &mut main);
        main.push_str("}\n@mixin m1 {\n");
        render(&self.m1_before, 0, 1, &mut main);
        main.push_str("  @content;\n");
        render(&self.m1_after, 0, 1, &mut main);
        main.push_str("}\n");
        if let Some(l) = &self.unused_mixin {
            main.push_str("@mixin never {\n  ");
            render_loud(l, 0, &mut main);
            main.push_str("\n}\n");
        }
        if let Some(l) = &self.in_function {
            main.push_str("@function f() {\n  ");
            render_loud(l, 0, &mut main);
            main.push_str("\n  @return 1;\n}\nfn { r: f(); }\n");
        }
        for (i, s) in self.top.iter().enumerate() {
            if let Some((at, _)) = &self.imported {
                if *at == i {
                    main.push_str("@import \"imp\";\n");
                }
            }
            render(std::slice::from_ref(s), 0, 0, &mut main);
        }
        if let Some((at, _)) = &self.imported {
            if *at >= self.top.len() {
                main.push_str("@import \"imp\";\n");
            }
        }
        let mut files = vec![("main.scss".to_string(), main)];
        if let Some((_, v)) = &self.imported {
            let mut t = String::new();
            render(v, 0, 0, &mut t);
            files.push(("_imp.scss".into(), t));
        }
        if let Some(v) = &self.used {
            let mut t = String::from("$g: uv;\n");
            render(v, 0, 0, &mut t);
            files.push(("_used.scss".into(), t));
        }
        files
    }

    /// reference: the loud comments reached, in order, as (preserved, body text)
    pub fn expected(&self) -> Vec<(bool, String)> {
        let mut out = vec![];
        if let Some(v) = &self.used {
            self.walk(v, &mut vec![], None, "uv", &mut out);
        }
        for (i, s) in self.top.iter().enumerate() {
            if let Some((at, v)) = &self.imported {
                if *at == i {
                    self.walk(v, &mut vec![], None, "gv", &mut out);
                }
            }
            self.walk(std::slice::from_ref(s), &mut vec![], None, "gv", &mut out);
        }
        if let Some((at, v)) = &self.imported {
            if *at >= self.top.len() {
                self.walk(v, &mut vec![], None, "gv", &mut out);
            }
        }
        out
    }

    fn walk(&self, v: &[Stmt], loops: &mut Vec<String>, content: Option<(&[Stmt], &Vec<String>)>, g: &str, out: &mut Vec<(bool, String)>) {
        for s in v {
            match s {
                Stmt::Loud(l) => {
                    let mut t = format!("{}{}m{}", if l.preserved { "! P" } else { " L" }, l.id, l.text);
                    if let Some((pre, e)) = &l.interp {
                        t.push_str(pre);
                        match e {
                            Ie::Add(a, b) => t.push_str(&(a + b).to_string()),
                            Ie::LoopVar => t.push_str(loops.last().map(|s| s.as_str()).unwrap_or("7")),
                            Ie::Str(s) => t.push_str(s),
                            Ie::Global => t.push_str(g),
                        }
                    }
                    t.push_str(&l.tail);
                    t.push(' ');
                    out.push((l.preserved, t));
                }
                Stmt::Silent(..) | Stmt::Decl(_) => {}
                Stmt::Rule(_, b) | Stmt::Media(b) => self.walk(b, loops, content, g, out),
                Stmt::Each(n, b) => {
                    for i in 1..=*n {
                        loops.push(format!("k{i}"));
                        self.walk(b, loops, content, g, out);
                        loops.pop();
                    }
                }
                Stmt::If(c, a, b) => self.walk(if *c { a } else { b }, loops, content, g, out),
                // a mixin body sees no loop variable of the caller; the content block sees those of the include site
                Stmt::Include => self.walk(&self.m0, &mut vec![], None, g, out),
                Stmt::IncludeContent(b) => {
                    let snapshot = loops.clone();
                    self.walk(&self.m1_before, &mut vec![], None, g, out);
                    self.walk(b, &mut snapshot.clone(), None, g, out);
                    self.walk(&self.m1_after, &mut vec![], None, g, out);
                }
            }
        }
        let _ = content;
    }
}

fn squash(s: &str) -> String {
    s.split_whitespace().collect::<Vec<_>>().join(" ")
}

/// bodies of the comments in a CSS text without strings
fn comments_of(css: &str) -> Vec<String> {
    let mut out = vec![];
    let mut rest = css;
    while let Some(p) = rest.find("/*") {
        let after = &rest[p + 2..];
        match after.find("*/") {
            Some(e) => {
                out.push(after[..e].to_string());
                rest = &after[e + 2..];
            }
            None => {
                out.push(format!("UNTERMINATED {after}"));
                break;
            }
        }
    }
    out
}

impl Prop for C36 {
    type Case = Case;
    const ID: &'static str = "C36";
    fn new() -> Self {
        C36
    }
    fn rule(&self) -> String {
        "programs of nested statements (depth <= 3): loud comments `/* Lk.. */` and preserved comments `/*! Pk.. */` with unique markers, literal text with `#`, `{`, `}`, `*`, `/`, `//`, line breaks, and optionally an interpolation (sum, loop variable, quoted string, global) right after such text; silent comments (also with a fake loud comment or interpolation inside, and trailing a declaration); style rules, @each loops of 0..3 rounds, @if/@else with constant conditions, @media, @include of a mixin, @include with a content block, a mixin never included, a comment in a called @function, comments in a file loaded by @import at any top-level position and in a module loaded by @use. Oracle: a reference walk lists the loud comments reached with interpolation evaluated; expanded output must contain exactly that sequence of comment bodies (white space squashed), compressed output exactly the preserved ones; no silent comment marker (SIL<k>x, X9) anywhere in either output. Non-trivial: at least two comments expected and one construct that repeats or skips (loop, if, include); distinct by case".into()
    }
    fn assumptions(&self) -> Vec<String> {
        vec![
            "comments are generated in statement positions only (not inside selectors or values); placeholder-only rules are not generated (their whole rule is dropped)".into(),
            "white space inside a comment body is compared after squashing runs of blanks and line breaks (re-indentation is allowed)".into(),
        ]
    }
    fn phases(&self, tier: Tier) -> Vec<Phase<Case>> {
        vec![Phase::random("programs", cases(), tier.pick(60_000, 1_500_000))]
    }
    fn render(&self, c: &Case) -> serde_json::Value {
        serde_json::json!({"files": c.files(), "expected_expanded": c.expected().into_iter().map(|(_, t)| t).collect::<Vec<_>>()})
    }
    fn check(&self, c: &Case) -> Verdict {
        let files = c.files();
        let want = c.expected();
        for (style, o) in [("expanded", Opts::default()), ("compressed", Opts::compressed())] {
            let out = match rs::compile_files(&files, "main.scss", &o) {
                Res::Ok(b) => String::from_utf8_lossy(&b).to_string(),
                Res::Panic(m) => return Verdict::fail(format!("panic ({style}): {m}\n{}", files[0].1)),
                e => return Verdict::fail(format!("valid program does not compile ({style}): {}\n{}", e.brief().chars().take(300).collect::<String>(), files[0].1)),
            };
            if let Some(p) = out.find("SIL").or_else(|| out.find("X9")) {
                let tail: String = out[p..].chars().take(40).collect();
                return Verdict::fail(format!("a silent comment reaches the {style} output: ..{tail:?}\n{}", files[0].1));
            }
            let got: Vec<String> = comments_of(&out).iter().map(|s| squash(s)).collect();
            let exp: Vec<String> = want.iter().filter(|(p, _)| style == "expanded" || *p).map(|(_, t)| squash(t)).collect();
            if got != exp {
                let at = got.iter().zip(exp.iter()).position(|(a, b)| a != b).unwrap_or(got.len().min(exp.len()));
                return Verdict::fail(format!(
                    "{style} output has {} comments, expected {}; first difference at #{at}: got {:?}, expected {:?}\nsource:\n{}\noutput:\n{}",
                    got.len(),
                    exp.len(),
                    got.get(at),
                    exp.get(at),
                    files.iter().map(|(n, t)| format!("--- {n}\n{t}")).collect::<String>(),
                    out
                ));
            }
        }
        fn has_ctl(v: &[Stmt]) -> bool {
            v.iter().any(|s| match s {
                Stmt::Each(..) | Stmt::If(..) | Stmt::Include | Stmt::IncludeContent(_) => true,
                Stmt::Rule(_, b) | Stmt::Media(b) => has_ctl(b),
                _ => false,
            })
        }
        let n_pres = want.iter().filter(|(p, _)| *p).count();
        Verdict::pass(want.len() >= 2 && has_ctl(&c.top))
            .class_if(n_pres > 0, "has-preserved")
            .class_if(c.imported.is_some(), "import")
            .class_if(c.used.is_some(), "use")
            .class_if(want.iter().any(|(_, t)| t.contains('#')), "hash-in-comment")
            .class_if(want.is_empty(), "no-comment-expected")
    }
}
