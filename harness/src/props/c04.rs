//! C04 Load URLs resolve to the documented candidate file (real directories, FsContext).

use crate::engine::{Phase, Prop, Tier, Verdict};
use crate::rs::{self, Res};
use proptest::prelude::*;
use rsass::input::FsContext;
use rsass::output::Format;
use serde::{Deserialize, Serialize};
use std::path::{Path, PathBuf};
use std::sync::atomic::{AtomicU64, Ordering};

pub struct C04;

/// candidate file names for url `u`, in the order rsass documents (reading A)
pub const USE_CANDS: &[&str] = &["u.scss", "_u.scss", "u/index.scss", "u/_index.scss", "u.css", "_u.css"];
pub const IMPORT_CANDS: &[&str] = &["u.import.scss", "_u.import.scss", "u.scss", "_u.scss", "u/index.import.scss", "u/_index.import.scss", "u/index.scss", "u/_index.scss", "u.css", "_u.css"];
/// the other reading of "tries the matching .import.scss variant before each .scss candidate"
pub const IMPORT_CANDS_B: &[&str] = &["u.import.scss", "u.scss", "_u.import.scss", "_u.scss", "u/index.import.scss", "u/index.scss", "u/_index.import.scss", "u/_index.scss", "u.css", "_u.css"];

#[derive(Clone, Debug, Serialize, Deserialize, PartialEq)]
pub enum Case {
    /// `kind`: 0 @use, 1 @forward, 2 @import; `sub`: the importer lives in sub/; present[loc] = bit set of candidates
    /// that exist in location loc (0 = next to the importer, 1 = first load path, 2 = second load path)
    Layout { kind: u8, sub: bool, present: [u16; 3] },
    /// nothing exists: `target` is what is loaded with @import / @use
    Missing { import: bool, target: String },
}

fn cands(kind: u8) -> &'static [&'static str] {
    if kind == 2 { IMPORT_CANDS } else { USE_CANDS }
}

fn write(p: &Path, s: &str) {
    if let Some(d) = p.parent() {
        let _ = std::fs::create_dir_all(d);
    }
    let _ = std::fs::write(p, s);
}

fn scratch() -> PathBuf {
    static N: AtomicU64 = AtomicU64::new(0);
    let d = crate::engine::worker::scratch_dir().join(format!("c04-{}", N.fetch_add(1, Ordering::Relaxed)));
    let _ = std::fs::create_dir_all(&d);
    d
}

fn compile_main(root: &Path) -> Res {
    let main = root.join("base/main.scss");
    let (lp1, lp2) = (root.join("lp1"), root.join("lp2"));
    let _ = std::fs::create_dir_all(&lp1);
    let _ = std::fs::create_dir_all(&lp2);
    rs::run(move || {
        let (mut ctx, src) = FsContext::for_path(&main)?;
        ctx.push_path(&lp1);
        ctx.push_path(&lp2);
        ctx.with_format(Format::default()).transform(src)
    })
}

/// winners the statement allows: per location order (importer-relative, load path 1, load path 2) and per candidate order,
/// under both readings of the candidate order; the importer's directory always comes first, and among the load
/// paths both readings of how locations and candidates interleave are accepted
fn acceptable(kind: u8, present: &[u16; 3]) -> Vec<(usize, &'static str)> {
    let mut out: Vec<(usize, &'static str)> = vec![];
    let orders: Vec<&[&str]> = if kind == 2 { vec![IMPORT_CANDS, IMPORT_CANDS_B] } else { vec![USE_CANDS] };
    let names = cands(kind);
    let has = |loc: usize, name: &str| names.iter().position(|n| *n == name).is_some_and(|i| present[loc] & (1 << i) != 0);
    for order in orders {
        // "relative to the importing file first": any candidate beside the importer wins over every load path
        if let Some(n) = order.iter().find(|n| has(0, n)) {
            out.push((0, *n));
            continue;
        }
        // "then unchanged in each load path in order": location-major ...
        'l: for loc in 1..3 {
            for n in order.iter() {
                if has(loc, n) {
                    out.push((loc, n));
                    break 'l;
                }
            }
        }
        // ... or candidate-major over the load paths (the statement does not say which loop is the outer one)
        'c: for n in order.iter() {
            for loc in 1..3 {
                if has(loc, n) {
                    out.push((loc, n));
                    break 'c;
                }
            }
        }
    }
    out.sort();
    out.dedup();
    out
}

fn layouts(tier: Tier) -> Vec<Case> {
    let mut v = vec![];
    for kind in 0..3u8 {
        let n = cands(kind).len();
        for sub in [false, true] {
            for loc in 0..3 {
                // every subset in one location (kind 1 = @forward shares the candidate list of @use: every 4th subset)
                for bits in 1u16..(1 << n) {
                    if kind == 1 && bits % 4 != 1 {
                        continue;
                    }
                    if tier == Tier::Quick && kind == 2 && loc == 2 && bits % 3 != 0 {
                        continue;
                    }
                    let mut present = [0u16; 3];
                    present[loc] = bits;
                    v.push(Case::Layout { kind, sub, present });
                }
            }
            // one or two candidates in each of two locations
            for (l1, l2) in [(0, 1), (0, 2), (1, 2)] {
                for a in 0..n {
                    for b in 0..n {
                        let mut present = [0u16; 3];
                        present[l1] = 1 << a;
                        present[l2] = 1 << b;
                        v.push(Case::Layout { kind, sub, present });
                    }
                }
            }
        }
    }
    for import in [true, false] {
        for t in ["u", "x.css", "http://example.org/x", "https://example.org/x.scss", "//example.org/x", "url(x)", "url(\"x.scss\")", "sub/u", "./u", "u.scss", "_u", "u/index"] {
            v.push(Case::Missing { import, target: t.to_string() });
        }
    }
    v
}

fn random_layouts() -> impl Strategy<Value = Case> {
    (0u8..3, any::<bool>(), any::<u16>(), any::<u16>(), any::<u16>()).prop_map(|(kind, sub, a, b, c)| {
        let mask = (1u16 << cands(kind).len()) - 1;
        Case::Layout { kind, sub, present: [a & b & mask, b & c & mask, a & c & mask] }
    })
}

impl Prop for C04 {
    type Case = Case;
    const ID: &'static str = "C04";
    fn new() -> Self {
        C04
    }
    fn rule(&self) -> String {
        "real directory trees (base/, base/sub/, lp1/, lp2/ with FsContext::for_path + push_path): for @use, @forward (6 candidates) and @import (10 candidates) of url `u`, from an importer at the root or in sub/: every non-empty subset of the candidates placed in one of the three locations (next to the importer, first load path, second load path), every pair of single candidates in two locations, random mixtures over all three; each candidate file emits a marker naming itself. Plus nothing-exists cases for plain/`.css`/http(s)/`//`/url() targets. Oracle: the marker in the output must belong to a winner the statement allows (first existing candidate; importer-relative before load path 1 before load path 2); nothing found => error, except the plain-CSS import forms, which must be emitted as @import. Non-trivial: >= 2 existing candidates, or a hit only through a load path, or an importer in sub/; distinct by layout".into()
    }
    fn assumptions(&self) -> Vec<String> {
        vec![
            "where the statement admits two readings both winners are accepted: `u.scss` vs `_u.import.scss` (and the index pair) for @import; candidate-major vs location-major search across locations".into(),
            "for an importer in sub/, no candidate is placed in base/ itself (the statement does not say whether the entry file's directory is a load path)".into(),
        ]
    }
    fn phases(&self, tier: Tier) -> Vec<Phase<Case>> {
        vec![Phase::enumerate("layouts", layouts(tier).into_iter()), Phase::random("random-mixtures", random_layouts(), tier.pick(3_000, 150_000))]
    }
    fn check(&self, c: &Case) -> Verdict {
        let root = scratch();
        let v = self.judge(c, &root);
        let _ = std::fs::remove_dir_all(&root);
        v
    }
}

impl C04 {
    fn judge(&self, c: &Case, root: &Path) -> Verdict {
        match c {
            Case::Missing { import, target } => {
                let stmt = if *import {
                    if target.starts_with("url(") { format!("@import {target};") } else { format!("@import \"{target}\";") }
                } else if target.starts_with("url(") {
                    return Verdict::pass(false);
                } else {
                    format!("@use \"{target}\";")
                };
                write(&root.join("base/main.scss"), &format!("{stmt}\n.after {{ k: v }}\n"));
                let r = compile_main(root);
                let plain_css = *import && (target.ends_with(".css") || target.starts_with("http://") || target.starts_with("https://") || target.starts_with("//") || target.starts_with("url("));
                match (&r, plain_css) {
                    (Res::Panic(m), _) => Verdict::fail(format!("panic: {m}")),
                    (Res::Ok(o), true) => {
                        let t = String::from_utf8_lossy(o);
                        if t.contains("@import") && t.contains(".after") {
                            Verdict::pass(true).class("plain-css-import")
                        } else {
                            Verdict::fail(format!("`{stmt}` must be emitted as a plain CSS @import, got {t:?}"))
                        }
                    }
                    (Res::Err { .. }, true) => Verdict::fail(format!("`{stmt}` must be emitted as a plain CSS @import, got {}", r.brief())),
                    (Res::Err { .. }, false) => Verdict::pass(true).class("not-found-error"),
                    (Res::Ok(o), false) => Verdict::fail(format!("`{stmt}` finds nothing and must fail, got {:?}", String::from_utf8_lossy(o))),
                }
            }
            Case::Layout { kind, sub, present } => {
                let names = cands(*kind);
                let dirs = [if *sub { root.join("base/sub") } else { root.join("base") }, root.join("lp1"), root.join("lp2")];
                let mut count = 0;
                for (loc, dir) in dirs.iter().enumerate() {
                    for (i, n) in names.iter().enumerate() {
                        if present[loc] & (1 << i) != 0 {
                            count += 1;
                            write(&dir.join(n), &format!(".w {{ from: \"{loc}/{n}\"; }}\n"));
                        }
                    }
                }
                let stmt = match kind {
                    0 => "@use \"u\";",
                    1 => "@forward \"u\";",
                    _ => "@import \"u\";",
                };
                if *sub {
                    write(&root.join("base/main.scss"), "@use \"sub/x\";\n");
                    write(&root.join("base/sub/_x.scss"), &format!("{stmt}\n.after {{ k: v }}\n"));
                } else {
                    write(&root.join("base/main.scss"), &format!("{stmt}\n.after {{ k: v }}\n"));
                }
                let ok = acceptable(*kind, present);
                let r = compile_main(root);
                let nontrivial = count >= 2 || present[0] == 0 || *sub;
                let describe = || format!("{stmt} from {} with files {:?}", if *sub { "base/sub/_x.scss" } else { "base/main.scss" }, (0..3).flat_map(|l| names.iter().enumerate().filter(move |(i, _)| present[l] & (1 << i) != 0).map(move |(_, n)| format!("{}/{n}", ["<importer dir>", "lp1", "lp2"][l]))).collect::<Vec<_>>());
                match r {
                    Res::Panic(m) => Verdict::fail(format!("panic: {m}")),
                    Res::Err { .. } if ok.is_empty() => Verdict::pass(false).class("nothing-exists"),
                    Res::Err { .. } => {
                        let msg = format!("{}: must load one of {ok:?} but fails: {}", describe(), r.brief().chars().take(150).collect::<String>());
                        if *sub && present[0] == 0 { Verdict::known("C04-load-path-not-tried-unchanged-from-subdir", msg) } else { Verdict::fail(msg) }
                    }
                    Res::Ok(o) => {
                        let t = String::from_utf8_lossy(&o).to_string();
                        let from = t.split("from: \"").nth(1).and_then(|s| s.split('"').next()).map(|s| s.to_string());
                        match from {
                            None if ok.is_empty() => Verdict::fail(format!("{}: nothing exists, the load must fail, got {t:?}", describe())),
                            None => Verdict::fail(format!("{}: no candidate was loaded, output {t:?}", describe())),
                            Some(f) => {
                                if ok.iter().any(|(loc, n)| format!("{loc}/{n}") == f) {
                                    Verdict::pass(nontrivial).class(format!("kind-{kind}")).class_if(*sub, "importer-in-subdir").class_if(present[0] == 0, "via-load-path")
                                } else {
                                    let msg = format!("{}: loaded {f}, the statement allows {ok:?}", describe());
                                    // open finding: for an importer in the loader's base directory that directory is just the
                                    // first entry of the search path, and the search is candidate-major over base and load paths
                                    let candidate_major_all = {
                                        let orders: Vec<&[&str]> = if *kind == 2 { vec![IMPORT_CANDS, IMPORT_CANDS_B] } else { vec![USE_CANDS] };
                                        orders.iter().any(|order| {
                                            order.iter().find_map(|n| (0..3).find(|l| names.iter().position(|x| x == n).is_some_and(|i| present[*l] & (1 << i) != 0)).map(|l| format!("{l}/{n}"))).as_deref() == Some(f.as_str())
                                        })
                                    };
                                    if !*sub && present[0] != 0 && candidate_major_all {
                                        Verdict::known("C04-base-dir-searched-candidate-major", msg)
                                    } else {
                                        Verdict::fail(msg)
                                    }
                                }
                            }
                        }
                    }
                }
            }
        }
    }
}
