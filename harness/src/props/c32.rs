//! C32 Color adjustment functions obey their laws.

use super::c31::{color, Col};
use crate::engine::{Phase, Prop, Tier, Verdict};
use crate::rs::{self, Res};
use proptest::prelude::*;
use serde::{Deserialize, Serialize};

pub struct C32;

#[derive(Clone, Debug, Serialize, Deserialize)]
pub struct Case {
    pub c: Col,
    /// an amount in percent (0..=100), in tenths
    pub amount: u32,
    /// an alpha amount in thousandths (0..=1000)
    pub alpha_amount: u32,
    /// a hue rotation in degrees
    pub degrees: i32,
    /// a mix weight in percent
    pub weight: u32,
}

fn f(x: f64) -> String {
    let s = format!("{x:.6}");
    s.trim_end_matches('0').trim_end_matches('.').to_string()
}

fn cases() -> impl Strategy<Value = Case> {
    let amount = prop_oneof![3 => (0u32..=100).prop_map(|v| v * 10), 2 => 0u32..=1000, 1 => proptest::sample::select(&[0u32, 1000, 500, 1, 999][..])];
    let alpha = prop_oneof![3 => (0u32..=10).prop_map(|v| v * 100), 2 => 0u32..=1000, 1 => proptest::sample::select(&[0u32, 1000, 1, 999][..])];
    (color().prop_filter("hsl arguments in range (C31 finding)", |c| !c.hsl_out_of_range), amount, alpha, prop_oneof![3 => -720i32..=720, 1 => proptest::sample::select(&[0, 180, 360, -360, 90, 720][..])], 0u32..=100)
        .prop_map(|(c, amount, alpha_amount, degrees, weight)| Case { c, amount, alpha_amount, degrees, weight })
}

fn num(t: &Option<String>) -> Option<f64> {
    let t = t.as_deref()?;
    let end = t.find(|c: char| !(c.is_ascii_digit() || c == '.' || c == '-' || c == 'e')).unwrap_or(t.len());
    t[..end].parse().ok()
}

struct Law {
    name: String,
    probe: String,
    expect: Expect,
}
enum Expect {
    True,
    Num(f64),
}

impl Prop for C32 {
    type Case = Case;
    const ID: &'static str = "C32";
    fn new() -> Self {
        C32
    }
    fn rule(&self) -> String {
        "colours from the C31 generator (all constructors, with alpha; hsl arguments in range), an amount in 0%..100% (tenths, with boundaries), an alpha amount in 0..1 (thousandths), a rotation in [-720deg, 720deg] and a mix weight. Laws: mix(c,c,w) == c; invert(invert(c)) == c, complement(complement(c)) == c, adjust-hue(c, 360deg) == c, adjust-hue(adjust-hue(c, d), -d) == c; color.adjust/scale/change with no or identity arguments == c (rgb, hsl, hwb and alpha groups); lightness(lighten(c,a)) = min(100%, lightness(c)+a) and the five siblings (darken, saturate, desaturate, opacify, transparentize) likewise within 1e-6, with the other two channels of the group unchanged; the pair undoes itself when the sum stays inside the range; grayscale(c) has saturation 0 and the lightness and alpha of c. Non-trivial: the colour is not a grey and the amount is not 0; distinct by case".into()
    }
    fn assumptions(&self) -> Vec<String> {
        vec!["saturate/desaturate laws are stated on colours that are not grey (hue and saturation of a grey are degenerate) and, for saturate, on the hsl saturation channel (not the css filter saturate())".into()]
    }
    fn phases(&self, tier: Tier) -> Vec<Phase<Case>> {
        vec![Phase::random("laws", cases(), tier.pick(20_000, 1_000_000))]
    }
    fn check(&self, c: &Case) -> Verdict {
        let t = &c.c.text;
        let a = c.amount as f64 / 10.0;
        let aa = c.alpha_amount as f64 / 1000.0;
        let d = c.degrees;
        let w = c.weight;
        // the colour's own channels first
        let base = match rs::probes(&[format!("hue({t})"), format!("saturation({t})"), format!("lightness({t})"), format!("alpha({t})")]) {
            Ok(r) => r,
            Err(Res::Panic(m)) => return Verdict::fail(format!("panic for {t}: {m}")),
            Err(e) => return Verdict::fail(format!("channel functions fail on {t}: {}", e.brief().chars().take(150).collect::<String>())),
        };
        let (Some(_h), Some(s), Some(l), Some(al)) = (num(&base[0]), num(&base[1]), num(&base[2]), num(&base[3])) else {
            return Verdict::fail(format!("channels of {t} printed as {base:?}"));
        };
        let grey = s < 1e-6 || l < 1e-6 || l > 100.0 - 1e-6;
        let mut laws: Vec<Law> = vec![];
        let mut t_law = |name: &str, probe: String| laws.push(Law { name: name.into(), probe, expect: Expect::True });
        t_law("mix(c, c, w) == c", format!("mix({t}, {t}, {w}%) == {t}"));
        t_law("mix(c, c) == c", format!("mix({t}, {t}) == {t}"));
        t_law("invert(invert(c)) == c", format!("invert(invert({t})) == {t}"));
        t_law("complement(complement(c)) == c", format!("complement(complement({t})) == {t}"));
        t_law("adjust-hue(c, 360deg) == c", format!("adjust-hue({t}, 360deg) == {t}"));
        t_law("adjust-hue(c, 0deg) == c", format!("adjust-hue({t}, 0deg) == {t}"));
        t_law("adjust-hue(adjust-hue(c, d), -d) == c", format!("adjust-hue(adjust-hue({t}, {d}deg), {}deg) == {t}", -d));
        t_law("adjust-hue(adjust-hue(c, d), 360deg - d) == c", format!("adjust-hue(adjust-hue({t}, {d}deg), {}deg) == {t}", 360 - d));
        t_law("complement(c) == adjust-hue(c, 180deg)", format!("complement({t}) == adjust-hue({t}, 180deg)"));
        t_law("color.adjust(c) == c", format!("color.adjust({t}) == {t}"));
        t_law("color.adjust(c, rgb 0) == c", format!("color.adjust({t}, $red: 0, $green: 0, $blue: 0) == {t}"));
        t_law("color.adjust(c, hsl 0) == c", format!("color.adjust({t}, $hue: 0deg, $saturation: 0%, $lightness: 0%, $alpha: 0) == {t}"));
        t_law("color.adjust(c, hwb 0) == c", format!("color.adjust({t}, $hue: 0deg, $whiteness: 0%, $blackness: 0%) == {t}"));
        t_law("color.adjust(c, alpha 0) == c", format!("color.adjust({t}, $alpha: 0) == {t}"));
        t_law("color.scale(c) == c", format!("color.scale({t}) == {t}"));
        t_law("color.scale(c, rgb 0%) == c", format!("color.scale({t}, $red: 0%, $green: 0%, $blue: 0%, $alpha: 0%) == {t}"));
        t_law("color.scale(c, hsl 0%) == c", format!("color.scale({t}, $saturation: 0%, $lightness: 0%) == {t}"));
        t_law("color.scale(c, hwb 0%) == c", format!("color.scale({t}, $whiteness: 0%, $blackness: 0%) == {t}"));
        t_law("color.change(c) == c", format!("color.change({t}) == {t}"));
        t_law("color.change(c, own alpha) == c", format!("color.change({t}, $alpha: alpha({t})) == {t}"));
        t_law("color.change(c, own hsl) == c", format!("color.change({t}, $hue: hue({t}), $saturation: saturation({t}), $lightness: lightness({t})) == {t}"));
        t_law("color.change(c, own hwb) == c", format!("color.change({t}, $hue: hue({t}), $whiteness: color.whiteness({t}), $blackness: color.blackness({t})) == {t}"));
        t_law("lighten(c, 0%) == c", format!("lighten({t}, 0%) == {t}"));
        t_law("darken(c, 0%) == c", format!("darken({t}, 0%) == {t}"));
        t_law("opacify(c, 0) == c", format!("opacify({t}, 0) == {t}"));
        t_law("transparentize(c, 0) == c", format!("transparentize({t}, 0) == {t}"));
        t_law("desaturate(c, 0%) == c", format!("desaturate({t}, 0%) == {t}"));
        t_law("saturate(c, 0%) == c", format!("saturate({t}, 0%) == {t}"));
        if l + a <= 100.0 {
            t_law("darken(lighten(c, a), a) == c", format!("darken(lighten({t}, {}%), {}%) == {t}", f(a), f(a)));
        }
        if l - a >= 0.0 {
            t_law("lighten(darken(c, a), a) == c", format!("lighten(darken({t}, {}%), {}%) == {t}", f(a), f(a)));
        }
        if al + aa <= 1.0 {
            t_law("transparentize(opacify(c, a), a) == c", format!("transparentize(opacify({t}, {}), {}) == {t}", f(aa), f(aa)));
            t_law("fade-out(fade-in(c, a), a) == c", format!("fade-out(fade-in({t}, {}), {}) == {t}", f(aa), f(aa)));
        }
        if al - aa >= 0.0 {
            t_law("opacify(transparentize(c, a), a) == c", format!("opacify(transparentize({t}, {}), {}) == {t}", f(aa), f(aa)));
        }
        if !grey {
            if s + a <= 100.0 {
                t_law("desaturate(saturate(c, a), a) == c", format!("desaturate(saturate({t}, {}%), {}%) == {t}", f(a), f(a)));
            }
            if s - a > 0.0 {
                t_law("saturate(desaturate(c, a), a) == c", format!("saturate(desaturate({t}, {}%), {}%) == {t}", f(a), f(a)));
            }
        }
        let mut n_law = |name: &str, probe: String, v: f64| laws.push(Law { name: name.into(), probe, expect: Expect::Num(v) });
        let pa = format!("{}%", f(a));
        n_law("lightness(lighten(c, a))", format!("lightness(lighten({t}, {pa}))"), (l + a).min(100.0));
        n_law("lightness(darken(c, a))", format!("lightness(darken({t}, {pa}))"), (l - a).max(0.0));
        n_law("alpha(lighten(c, a))", format!("alpha(lighten({t}, {pa}))"), al);
        n_law("alpha(darken(c, a))", format!("alpha(darken({t}, {pa}))"), al);
        n_law("alpha(opacify(c, a))", format!("alpha(opacify({t}, {}))", f(aa)), (al + aa).min(1.0));
        n_law("alpha(fade-in(c, a))", format!("alpha(fade-in({t}, {}))", f(aa)), (al + aa).min(1.0));
        n_law("alpha(transparentize(c, a))", format!("alpha(transparentize({t}, {}))", f(aa)), (al - aa).max(0.0));
        n_law("alpha(fade-out(c, a))", format!("alpha(fade-out({t}, {}))", f(aa)), (al - aa).max(0.0));
        n_law("lightness(opacify(c, a))", format!("lightness(opacify({t}, {}))", f(aa)), l);
        n_law("lightness(transparentize(c, a))", format!("lightness(transparentize({t}, {}))", f(aa)), l);
        n_law("saturation(grayscale(c))", format!("saturation(grayscale({t}))"), 0.0);
        n_law("lightness(grayscale(c))", format!("lightness(grayscale({t}))"), l);
        n_law("alpha(grayscale(c))", format!("alpha(grayscale({t}))"), al);
        n_law("alpha(invert(c))", format!("alpha(invert({t}))"), al);
        n_law("alpha(complement(c))", format!("alpha(complement({t}))"), al);
        n_law("lightness(complement(c))", format!("lightness(complement({t}))"), l);
        n_law("alpha(adjust-hue(c, d))", format!("alpha(adjust-hue({t}, {d}deg))"), al);
        n_law("saturation(desaturate(c, a))", format!("saturation(desaturate({t}, {pa}))"), (s - a).max(0.0));
        n_law("lightness(desaturate(c, a))", format!("lightness(desaturate({t}, {pa}))"), l);
        n_law("alpha(desaturate(c, a))", format!("alpha(desaturate({t}, {pa}))"), al);
        if !grey {
            n_law("saturation(saturate(c, a))", format!("saturation(saturate({t}, {pa}))"), (s + a).min(100.0));
            n_law("lightness(saturate(c, a))", format!("lightness(saturate({t}, {pa}))"), l);
            n_law("alpha(saturate(c, a))", format!("alpha(saturate({t}, {pa}))"), al);
            n_law("saturation(lighten(c, a)) when not clamped to white", format!("saturation(lighten({t}, {pa}))"), if l + a < 100.0 { s } else { f64::NAN });
            n_law("saturation(darken(c, a)) when not clamped to black", format!("saturation(darken({t}, {pa}))"), if l - a > 0.0 { s } else { f64::NAN });
        }
        let probes: Vec<String> = laws.iter().map(|l| l.probe.clone()).collect();
        let r = match rs::probes(&probes) {
            Ok(r) => r,
            Err(Res::Panic(m)) => return Verdict::fail(format!("panic for {t}, a = {a}, alpha amount = {aa}, d = {d}: {m}")),
            Err(e) => return Verdict::fail(format!("an adjustment function fails on {t} (a = {a}%, alpha amount {aa}, d = {d}deg): {}", e.brief().chars().take(200).collect::<String>())),
        };
        for (law, got) in laws.iter().zip(r.iter()) {
            match law.expect {
                Expect::True => {
                    if got.as_deref() != Some("true") {
                        return Verdict::fail(format!("law `{}` does not hold: {} is {:?} (c has saturation {s}%, lightness {l}%, alpha {al})", law.name, law.probe, got));
                    }
                }
                Expect::Num(v) => {
                    if v.is_nan() {
                        continue;
                    }
                    match num(got) {
                        Some(g) if (g - v).abs() <= 1e-6 => {}
                        _ => return Verdict::fail(format!("law `{}`: {} is {:?}, expected {} (c has saturation {s}%, lightness {l}%, alpha {al})", law.name, law.probe, got, v)),
                    }
                }
            }
        }
        Verdict::pass(!grey && c.amount > 0).class(c.c.origin.clone()).class_if(grey, "grey").class_if(al < 1.0, "translucent")
    }
}
