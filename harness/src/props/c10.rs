//! C10 Numbers are printed as correctly rounded decimals.
//!
//! Generator: f64 values of every class x precision 0..=20 x style.
//! Oracle: reference decimal arithmetic on the exact expansion of the double.

use crate::engine::{Phase, Prop, Tier, Verdict};
use crate::rs::{self, Opts, St};
use proptest::prelude::*;
use rsass::output::Format;
use rsass::value::Number;
use serde::{Deserialize, Serialize};
use serde_json::json;

pub struct C10;

#[derive(Clone, Debug, Serialize, Deserialize)]
pub enum Case {
    /// `Number::from(f64::from_bits(bits)).format(..)`
    Num { bits: u64, precision: usize, compressed: bool },
    /// `a{b: <expr>}` compiled; `lit` = Some(decimal literal) when expr is one
    Decl { expr: String, precision: usize, compressed: bool },
}

fn f64s() -> impl Strategy<Value = f64> {
    let pow10 = |e: i32| 10f64.powi(e);
    prop_oneof![
        // raw bit patterns: all classes incl. NaN, inf, subnormals
        3 => any::<u64>().prop_map(f64::from_bits),
        // "ordinary" magnitudes
        4 => (any::<bool>(), 0u64..(1u64 << 53), -60i32..12).prop_map(|(n, m, e)| {
            let v = m as f64 * 2f64.powi(e - 40);
            if n { -v } else { v }
        }),
        // decimal literals with up to 17 digits
        4 => (any::<bool>(), 0u64..100_000_000_000_000_000u64, 0usize..=22).prop_map(|(n, m, scale)| {
            let digits = format!("{m:018}");
            let cut = 18usize.saturating_sub(scale.min(18));
            let s = format!("{}{}.{}{}", if n { "-" } else { "" }, &digits[..cut], "0".repeat(scale.saturating_sub(18)), &digits[cut..]);
            let s = if s.ends_with('.') { format!("{s}0") } else { s };
            let s = if s.starts_with('.') || s.starts_with("-.") { s.replacen('.', "0.", 1) } else { s };
            s.parse::<f64>().unwrap_or(0.0)
        }),
        // rounding ties k.5 / 10^n and neighbours
        4 => (any::<bool>(), 0u64..2_000_000, 0i32..=20, -3i64..=3).prop_map(move |(n, k, e, ulps)| {
            let v = (k as f64 + 0.5) / pow10(e);
            let v = f64::from_bits((v.to_bits() as i64 + ulps) as u64);
            if n { -v } else { v }
        }),
        // carries d.9999
        3 => (any::<bool>(), 0u64..100_000, 1usize..=20, -2i64..=2).prop_map(|(n, w, nines, ulps)| {
            let s = format!("{w}.{}", "9".repeat(nines));
            let v: f64 = s.parse().unwrap_or(0.0);
            let v = f64::from_bits((v.to_bits() as i64 + ulps).max(0) as u64);
            if n { -v } else { v }
        }),
        // powers of ten +- ulps, and d * 10^e
        3 => (any::<bool>(), 1u32..=9, -25i32..=25, -3i64..=3).prop_map(|(n, d, e, ulps)| {
            let v: f64 = format!("{d}e{e}").parse().unwrap_or(1.0);
            let v = f64::from_bits((v.to_bits() as i64 + ulps).max(0) as u64);
            if n { -v } else { v }
        }),
        // integers and near-integers up to 1e21 and beyond 2^53
        2 => (any::<bool>(), any::<u64>(), 0u32..=12, prop_oneof![Just(0.0), Just(0.5), Just(0.25), Just(0.1)]).prop_map(|(n, m, sh, f)| {
            let v = (m >> sh) as f64 + f;
            if n { -v } else { v }
        }),
        // subnormals and tiny values
        1 => (any::<bool>(), 0u64..(1u64 << 53)).prop_map(|(n, m)| {
            let v = f64::from_bits(m);
            if n { -v } else { v }
        }),
        1 => prop_oneof![Just(0.0), Just(-0.0), Just(f64::INFINITY), Just(f64::NEG_INFINITY), Just(f64::NAN), Just(f64::MAX), Just(f64::MIN_POSITIVE), Just(1.0), Just(-1.0), Just(0.5), Just(1.5), Just(2.5), Just(-0.5), Just(0.05), Just(9.5), Just(99.5), Just(0.95), Just(0.995)],
    ]
}

fn num_cases() -> impl Strategy<Value = Case> {
    (f64s(), 0usize..=20, any::<bool>()).prop_map(|(x, precision, compressed)| Case::Num { bits: x.to_bits(), precision, compressed })
}

fn decl_cases() -> impl Strategy<Value = Case> {
    let nonfinite = prop_oneof![
        Just("math.div(1,0)".to_string()),
        Just("math.div(-1,0)".to_string()),
        Just("math.div(0,0)".to_string()),
        Just("math.sqrt(-1)".to_string()),
        Just("math.log(0)".to_string()),
        Just("-1 * math.div(1,0)".to_string()),
        Just("math.div(1,0) - math.div(1,0)".to_string()),
        Just("1e308 * 10".to_string()),
    ];
    // decimal literals of at most 15 significant digits
    let lit = (any::<bool>(), 0u64..1_000_000_000_000_000u64, 0usize..=15).prop_map(|(n, m, scale)| {
        let digits = format!("{m:016}");
        let cut = 16 - scale;
        let ip = digits[..cut].trim_start_matches('0');
        let fp = &digits[cut..];
        format!("{}{}{}{}", if n { "-" } else { "" }, if ip.is_empty() { "0" } else { ip }, if fp.is_empty() { "" } else { "." }, fp)
    });
    (prop_oneof![1 => nonfinite, 4 => lit], 0usize..=20, any::<bool>()).prop_map(|(expr, precision, compressed)| Case::Decl { expr, precision, compressed })
}

/// exact decimal digits of |x|: (integer digits without leading zeros (may be empty), fraction digits without trailing zeros)
fn exact(x: f64) -> (Vec<u8>, Vec<u8>) {
    let s = format!("{:.1100}", x.abs());
    let (i, f) = s.split_once('.').unwrap_or((&s, ""));
    let i = i.trim_start_matches('0');
    let f = f.trim_end_matches('0');
    (i.bytes().map(|b| b - b'0').collect(), f.bytes().map(|b| b - b'0').collect())
}

fn show(neg: bool, ip: &[u8], fp: &[u8], compressed: bool) -> String {
    let mut s = String::new();
    let zero = ip.is_empty() && fp.is_empty();
    if neg && !zero {
        s.push('-');
    }
    if ip.is_empty() {
        if !(compressed && !fp.is_empty()) {
            s.push('0');
        }
    } else {
        s.extend(ip.iter().map(|d| (b'0' + d) as char));
    }
    if !fp.is_empty() {
        s.push('.');
        s.extend(fp.iter().map(|d| (b'0' + d) as char));
    }
    s
}

pub struct Expect {
    pub accepted: Vec<String>,
    pub rounded: bool,
    pub near_tie: bool,
    pub carry: bool,
}

/// the numerals the property accepts for finite x.
/// `extra_ulps`: additional tolerance in ulps of x (for values that went through the parser first).
pub fn expected(x: f64, p: usize, compressed: bool, extra_ulps: f64) -> Expect {
    let (ip, fp) = exact(x);
    let neg = x.is_sign_negative();
    let intdigits = ip.len();
    let lz = if intdigits == 0 { fp.iter().take_while(|d| **d == 0).count() } else { 0 };
    let d_lo = p.min(16usize.saturating_sub(intdigits));
    let d_hi = p.min(16usize.saturating_sub(intdigits) + lz);
    // The printer extracts digits by multiplying the fraction by ten repeatedly; each step
    // is correctly rounded, which bounds the accumulated absolute error by about
    // 2^-53 * (frac + 0.6) for |x| >= 0.1 and 2^-53 * 11 * |x| below.  Stated tolerance:
    let scale = if x.abs() >= 0.1 { 1.0 } else { 10.0 * x.abs() };
    let tol = 4.0 * 2f64.powi(-53) * scale + extra_ulps * 2f64.powi(-52) * x.abs();
    let mut acc = vec![];
    let (mut rounded, mut near_tie, mut carry) = (false, false, false);
    for d in d_lo..=d_hi {
        if fp.len() > d {
            rounded = true;
        }
        // remainder after position d as a fraction of one unit in the last place
        let mut rem = 0.0f64;
        let mut sc = 0.1f64;
        for dg in fp.iter().skip(d).take(30) {
            rem += *dg as f64 * sc;
            sc /= 10.0;
        }
        let exact_tie = fp.len() == d + 1 && fp[d] == 5;
        let slack = tol * 10f64.powi(d as i32);
        let k = slack.ceil().min(20.0) as i64;
        let natural = if rem >= 0.5 { 1i64 } else { 0 };
        for j in -k..=k + 1 {
            let ok = if exact_tie || fp.len() <= d { j == natural } else { j == natural || ((j as f64) - rem).abs() < 0.5 + slack };
            if !ok {
                continue;
            }
            if j != natural {
                near_tie = true;
            }
            if let Some(a) = shifted(&ip, &fp, d, j) {
                if j == 1 && (a.0.len() > ip.len() || fp.get(d.wrapping_sub(1)) == Some(&9)) {
                    carry = true;
                }
                acc.push(show(neg, &a.0, &a.1, compressed));
            }
        }
    }
    acc.sort();
    acc.dedup();
    Expect { accepted: acc, rounded, near_tie, carry }
}

/// trunc(|x|, d) + j units in the last place (None when negative)
fn shifted(int: &[u8], frac: &[u8], d: usize, j: i64) -> Option<(Vec<u8>, Vec<u8>)> {
    let mut digits: Vec<i64> = vec![0];
    digits.extend(int.iter().map(|d| *d as i64));
    for i in 0..d {
        digits.push(*frac.get(i).unwrap_or(&0) as i64);
    }
    let n = digits.len();
    digits[n - 1] += j;
    for i in (0..n).rev() {
        while digits[i] < 0 {
            if i == 0 {
                return None;
            }
            digits[i] += 10;
            digits[i - 1] -= 1;
        }
        while digits[i] > 9 {
            if i == 0 {
                return None;
            }
            digits[i] -= 10;
            digits[i - 1] += 1;
        }
    }
    let split = n - d;
    let ip: Vec<u8> = digits[..split].iter().map(|d| *d as u8).skip_while(|c| *c == 0).collect();
    let mut fp: Vec<u8> = digits[split..].iter().map(|d| *d as u8).collect();
    while fp.last() == Some(&0) {
        fp.pop();
    }
    Some((ip, fp))
}

fn syntax_ok(t: &str, p: usize, compressed: bool) -> Result<(), String> {
    let body = t.strip_prefix('-').unwrap_or(t);
    let (i, f) = match body.split_once('.') {
        Some((i, f)) => (i, Some(f)),
        None => (body, None),
    };
    if !i.bytes().all(|b| b.is_ascii_digit()) || !f.unwrap_or("0").bytes().all(|b| b.is_ascii_digit()) {
        return Err("not a plain decimal numeral (exponent or stray character)".into());
    }
    if let Some(f) = f {
        if f.is_empty() {
            return Err("empty fraction".into());
        }
        if f.ends_with('0') {
            return Err("trailing fractional zero".into());
        }
        if f.len() > p {
            return Err(format!("{} fractional digits with precision {p}", f.len()));
        }
    }
    if i.is_empty() && f.is_none() {
        return Err("no digits".into());
    }
    if i.len() > 1 && i.starts_with('0') {
        return Err("leading zeros".into());
    }
    if compressed && f.is_some() && i == "0" {
        return Err("leading zero kept in compressed style".into());
    }
    if !compressed && i.is_empty() {
        return Err("leading zero dropped in expanded style".into());
    }
    if t.starts_with('-') && body.bytes().all(|b| b == b'0' || b == b'.') {
        return Err("negative zero".into());
    }
    Ok(())
}

fn judge(x: f64, text: &str, p: usize, compressed: bool, tol_ulps: f64) -> Verdict {
    if x.is_nan() {
        return if text == "NaN" { Verdict::pass(false).class("nan") } else { Verdict::fail(format!("NaN printed as {text:?}")) };
    }
    if x.is_infinite() {
        let want = if x > 0.0 { "infinity" } else { "-infinity" };
        return if text == want { Verdict::pass(false).class("infinite") } else { Verdict::fail(format!("{x} printed as {text:?}")) };
    }
    let too_long = |e: &String| e.contains("fractional digits with precision");
    if let Err(e) = syntax_ok(text, p, compressed) {
        if !(too_long(&e)) {
            return Verdict::fail(format!("x={x:e} precision={p} compressed={compressed}: {text:?}: {e}"));
        }
    }
    if x.abs() >= 1e16 {
        // integers only; not every integer is representable: the numeral must denote exactly x
        return match text.parse::<f64>() {
            Ok(v) if v == x && !text.contains('.') => Verdict::pass(false).class("huge-integer"),
            _ => Verdict::fail(format!("x={x:e} printed as {text:?}, which does not read back as x")),
        };
    }
    let e = expected(x, p, compressed, tol_ulps);
    if e.accepted.iter().any(|a| a == text) {
        return Verdict::pass(e.rounded).class_if(e.near_tie, "near-tie").class_if(e.carry, "carry").class_if(e.rounded, "rounded").class_if(x.abs() < 1.0 && x != 0.0, "below-one");
    }
    Verdict::fail(format!("x={x:e} (bits {:#x}) precision={p} compressed={compressed}: printed {text:?}, accepted {:?}", x.to_bits(), e.accepted))
}

impl Prop for C10 {
    type Case = Case;
    const ID: &'static str = "C10";
    fn new() -> Self {
        C10
    }
    fn rule(&self) -> String {
        "proptest: f64 from raw bit patterns, scaled integers, decimal literals <=17 digits, ties (k+.5)/10^n +-3ulp, d.99..9 carries, d*10^e +-3ulp, big integers, subnormals, specials; x precision 0..=20 x {expanded,compressed}; through Number::format and through `a{b:<literal>}`. Oracle: exact decimal expansion of the double, rounded half away from zero on digit strings. Non-trivial: finite x whose exact expansion has more fractional digits than are printed (rounding happened); distinct by (bits, precision, style)".into()
    }
    fn assumptions(&self) -> Vec<String> {
        vec![
            "a numeral n with D places is accepted when |n-x| < 0.5*10^-D + 4*2^-53*min(1,10|x|) (error bound of the printer's repeated multiplication by ten); ties that are exactly representable must round away from zero".into(),
            "|x| >= 1e16: any integer numeral that reads back as exactly x is accepted".into(),
            "for |x|<1 the digit cap may or may not count leading fractional zeros (both readings of '16 significant digits' accepted)".into(),
            "Rust's {:.1100} float formatting is exact".into(),
        ]
    }
    fn phases(&self, tier: Tier) -> Vec<Phase<Case>> {
        vec![
            Phase::random("number-format", num_cases(), tier.pick(400_000, 40_000_000)),
            Phase::random("declaration", decl_cases(), tier.pick(20_000, 1_000_000)),
        ]
    }
    fn render(&self, c: &Case) -> serde_json::Value {
        match c {
            Case::Num { bits, precision, compressed } => {
                let x = f64::from_bits(*bits);
                let fmt = Opts { css: false, style: if *compressed { St::Compressed } else { St::Expanded }, precision: *precision }.format();
                json!({"x": format!("{x:e}"), "bits": bits, "precision": precision, "compressed": compressed, "printed": Number::from(x).format(fmt).to_string()})
            }
            c => serde_json::to_value(c).unwrap(),
        }
    }
    fn check(&self, c: &Case) -> Verdict {
        match c {
            Case::Num { bits, precision, compressed } => {
                let x = f64::from_bits(*bits);
                let fmt = Format { style: if *compressed { rsass::output::Style::Compressed } else { rsass::output::Style::Expanded }, precision: *precision };
                let r = rs::run(|| Ok(Number::from(x).format(fmt).to_string().into_bytes()));
                let Some(text) = r.ok_str() else { return Verdict::fail(format!("formatting {x:e} at precision {precision}: {}", r.brief())) };
                judge(x, &text, *precision, *compressed, 0.0)
            }
            Case::Decl { expr, precision, compressed } => {
                let o = Opts { css: false, style: if *compressed { St::Compressed } else { St::Expanded }, precision: *precision };
                let src = format!("@use \"sass:math\";\na{{b:{expr}}}\n");
                let r = rs::compile(src.as_bytes(), &o);
                let Some(out) = r.ok_str() else { return Verdict::fail(format!("{src:?} does not compile: {}", r.brief())) };
                let val = if *compressed { out.strip_prefix("a{b:").and_then(|s| s.strip_suffix("}\n")) } else { out.strip_prefix("a {\n  b: ").and_then(|s| s.strip_suffix(";\n}\n")) };
                let Some(val) = val else { return Verdict::fail(format!("{src:?}: unexpected frame {out:?}")) };
                if let Ok(x) = expr.parse::<f64>() {
                    // literal: the parser may be off by an ulp or two, which is not this property's business
                    judge(x, val, *precision, *compressed, 4.0).class("literal")
                } else {
                    let ok = matches!(val, "calc(infinity)" | "calc(-infinity)" | "calc(NaN)");
                    let want = match expr.as_str() {
                        "math.div(1,0)" | "1e308 * 10" => "calc(infinity)",
                        "math.div(-1,0)" | "math.log(0)" | "-1 * math.div(1,0)" => "calc(-infinity)",
                        _ => "calc(NaN)",
                    };
                    if ok && val == want {
                        Verdict::pass(true).class("non-finite-declaration")
                    } else {
                        Verdict::fail(format!("{expr} at precision {precision} compressed={compressed} printed as {val:?}, expected {want}"))
                    }
                }
            }
        }
    }
}
