//! C20 Nested at-rules bubble and @at-root escapes correctly.

use crate::cssread;
use crate::engine::{Phase, Prop, Tier, Verdict};
use crate::gen::one_of;
use crate::rs::{self, Opts, Res};
use proptest::prelude::*;
use serde::{Deserialize, Serialize};

pub struct C20;

#[derive(Clone, Debug, Serialize, Deserialize)]
pub enum N {
    /// declaration `d<k>: v<k>`
    Decl(u32),
    Rule(String, Vec<N>),
    Media(Vec<N>),
    /// index of the condition
    Supports(u8, Vec<N>),
    Unknown(Vec<N>),
    /// `@at-root <selector> { .. }` (the selector may contain `&`)
    AtRootSel(String, Vec<N>),
    /// `@at-root { rules }`
    AtRootBare(Vec<N>),
    /// @keyframes with declarations in `from` and `to`
    Keyframes(u32, u32),
    FontFace(u32),
}

#[derive(Clone, Debug, Serialize, Deserialize)]
pub struct Case {
    pub top: Vec<N>,
}

const SUPPORTS: &[&str] = &["(x: y)", "(display: grid)", "not (a: b)"];

#[derive(Clone, Copy, PartialEq)]
enum Ctx {
    Top,
    InRule,
    /// directly inside `@at-root { }` (below a style rule): no current selector, but `&` still means the rule's selector
    Bare,
}

fn body(depth: u32, ctx: Ctx, media_allowed: bool) -> BoxedStrategy<Vec<N>> {
    let mut opts: Vec<(u32, BoxedStrategy<N>)> = vec![];
    if ctx == Ctx::InRule {
        opts.push((6, Just(N::Decl(0)).boxed()));
        opts.push((1, Just(N::Keyframes(0, 0)).boxed()));
        opts.push((1, Just(N::FontFace(0)).boxed()));
    }
    if depth > 0 {
        let d = depth - 1;
        let sel = match ctx {
            Ctx::InRule => one_of(&[".b", "c", "&:hover", "&-x", "& + .s", ".t &", "d, .e", "> .f", "&.g, .h"]),
            Ctx::Top => one_of(&[".a", "p", ".q, .r", "s t"]),
            Ctx::Bare => one_of(&[".k", ".l, .m", "n", ".c &", "&-y", "& .z", "&"]),
        };
        opts.push((4, (sel, body(d, Ctx::InRule, media_allowed)).prop_map(|(s, b)| N::Rule(s, b)).boxed()));
        if media_allowed {
            opts.push((2, body(d, ctx, false).prop_map(N::Media).boxed()));
        }
        opts.push((2, ((0u8..3), body(d, ctx, media_allowed)).prop_map(|(i, b)| N::Supports(i, b)).boxed()));
        opts.push((1, body(d, ctx, media_allowed).prop_map(N::Unknown).boxed()));
        if ctx != Ctx::Top {
            opts.push((if ctx == Ctx::Bare { 4 } else { 2 }, (one_of(&[".u", ".v &", "&-w", ".x, .y", "& .z"]), body(d, Ctx::InRule, media_allowed)).prop_map(|(s, b)| N::AtRootSel(s, b)).boxed()));
        }
        if ctx == Ctx::InRule {
            // a bare @at-root holds no declarations (a declaration there has no style rule to live in)
            opts.push((2, body(d, Ctx::Bare, media_allowed).prop_map(N::AtRootBare).boxed()));
        }
    }
    if opts.is_empty() {
        return Just(vec![]).boxed();
    }
    proptest::collection::vec(proptest::strategy::Union::new_weighted(opts), if ctx == Ctx::InRule { 1..5 } else { 1..3 }).boxed()
}

fn renumber(v: &mut Vec<N>, n: &mut u32) {
    for x in v {
        match x {
            N::Decl(k) | N::FontFace(k) => {
                *n += 1;
                *k = *n;
            }
            N::Keyframes(a, b) => {
                *n += 2;
                *a = *n - 1;
                *b = *n;
            }
            N::Rule(_, b) | N::Media(b) | N::Supports(_, b) | N::Unknown(b) | N::AtRootSel(_, b) | N::AtRootBare(b) => renumber(b, n),
        }
    }
}

fn cases() -> impl Strategy<Value = Case> {
    body(4, Ctx::Top, true).prop_map(|mut top| {
        let mut n = 0;
        renumber(&mut top, &mut n);
        Case { top }
    })
}

fn render(v: &[N], ind: usize, out: &mut String) {
    let pad = "  ".repeat(ind);
    for x in v {
        out.push_str(&pad);
        match x {
            N::Decl(k) => out.push_str(&format!("d{k}: v{k};\n")),
            N::Rule(s, b) => {
                out.push_str(&format!("{s} {{\n"));
                render(b, ind + 1, out);
                out.push_str(&format!("{pad}}}\n"));
            }
            N::Media(b) => {
                out.push_str("@media screen {\n");
                render(b, ind + 1, out);
                out.push_str(&format!("{pad}}}\n"));
            }
            N::Supports(i, b) => {
                out.push_str(&format!("@supports {} {{\n", SUPPORTS[*i as usize % SUPPORTS.len()]));
                render(b, ind + 1, out);
                out.push_str(&format!("{pad}}}\n"));
            }
            N::Unknown(b) => {
                out.push_str("@foo bar {\n");
                render(b, ind + 1, out);
                out.push_str(&format!("{pad}}}\n"));
            }
            N::AtRootSel(s, b) => {
                out.push_str(&format!("@at-root {s} {{\n"));
                render(b, ind + 1, out);
                out.push_str(&format!("{pad}}}\n"));
            }
            N::AtRootBare(b) => {
                out.push_str("@at-root {\n");
                render(b, ind + 1, out);
                out.push_str(&format!("{pad}}}\n"));
            }
            N::Keyframes(a, b) => out.push_str(&format!("@keyframes k{a} {{ from {{ d{a}: v{a}; }} to {{ d{b}: v{b}; }} }}\n")),
            N::FontFace(k) => out.push_str(&format!("@font-face {{ d{k}: v{k}; }}\n")),
        }
    }
}

/// split a selector list at top-level commas (the generated selectors have no nested commas)
fn members(s: &str) -> Vec<String> {
    s.split(',').map(|x| x.trim().to_string()).collect()
}

/// Sass nesting: parent-major product; `&` is replaced by what `&` means (`amp`), a member without `&` is a
/// descendant of the current selector (`sel`; none at top level or directly inside a bare @at-root)
fn nest(sel: &Option<Vec<String>>, amp: &Option<Vec<String>>, child: &str) -> Vec<String> {
    let kids = members(child);
    let n = amp.as_ref().map(|a| a.len()).or(sel.as_ref().map(|s| s.len())).unwrap_or(1);
    let mut out = vec![];
    for i in 0..n {
        for k in &kids {
            if k.contains('&') {
                match amp {
                    Some(a) => out.push(k.replace('&', &a[i.min(a.len() - 1)])),
                    None => out.push(k.clone()),
                }
            } else {
                match sel {
                    Some(s) => out.push(format!("{} {k}", s[i.min(s.len() - 1)])),
                    None => out.push(k.clone()),
                }
            }
        }
    }
    // without a current selector, members without `&` are not multiplied
    let mut seen = std::collections::BTreeSet::new();
    out.retain(|s| seen.insert(s.clone()));
    out
}

/// `@at-root sel`: only `&` brings the parent back
fn at_root(amp: &Option<Vec<String>>, sel: &str) -> Vec<String> {
    nest(&None, amp, sel)
}

type Expected = Vec<(Vec<String>, String)>;

/// reference: for every declaration in document order, its context path (at-rules outermost first, then the selector)
fn model(v: &[N], at: &Vec<String>, sel: &Option<Vec<String>>, amp: &Option<Vec<String>>, out: &mut Expected) {
    for x in v {
        match x {
            N::Decl(k) => {
                let mut p = at.clone();
                if let Some(s) = sel {
                    p.push(s.join(", "));
                }
                out.push((p, format!("d{k}")));
            }
            N::Rule(s, b) => {
                let n = Some(nest(sel, amp, s));
                model(b, at, &n, &n, out);
            }
            N::Media(b) => {
                let mut a = at.clone();
                a.push("@media screen".into());
                model(b, &a, sel, amp, out);
            }
            N::Supports(i, b) => {
                let mut a = at.clone();
                a.push(format!("@supports {}", SUPPORTS[*i as usize % SUPPORTS.len()]));
                model(b, &a, sel, amp, out);
            }
            N::Unknown(b) => {
                let mut a = at.clone();
                a.push("@foo bar".into());
                model(b, &a, sel, amp, out);
            }
            N::AtRootSel(s, b) => {
                let n = Some(at_root(amp, s));
                model(b, at, &n, &n, out);
            }
            N::AtRootBare(b) => model(b, at, &None, amp, out),
            N::Keyframes(a, b) => {
                let mut p = at.clone();
                p.push(format!("@keyframes k{a}"));
                let mut p1 = p.clone();
                p1.push("from".into());
                p.push("to".into());
                out.push((p1, format!("d{a}")));
                out.push((p, format!("d{b}")));
            }
            N::FontFace(k) => {
                let mut p = at.clone();
                p.push("@font-face".into());
                out.push((p, format!("d{k}")));
            }
        }
    }
}

/// is a suffix selector (`&-x`) nested below a compound where a class follows a pseudo-class (`.a:hover.g`)?
/// rsass writes that compound as `.a.g:hover` and then appends the suffix to the pseudo-class (open finding of C19)
fn suffix_after_reorder(v: &[N], sel: &Option<Vec<String>>, amp: &Option<Vec<String>>) -> bool {
    v.iter().any(|x| match x {
        N::Rule(s, b) | N::AtRootSel(s, b) => {
            // (a repeated class, `.a.g.g`, is normalised away as well before the suffix is appended)
            let repeated = |p: &str| {
                let last = p.rsplit(' ').next().unwrap_or(p);
                let simples = crate::selnorm::simples(last);
                let mut seen = std::collections::BTreeSet::new();
                simples.iter().any(|x| !seen.insert(x.clone()))
            };
            let risky = s.contains("&-") && amp.as_ref().is_some_and(|ps| ps.iter().any(|p| p.contains(":hover.") || repeated(p)));
            let next = Some(if matches!(x, N::Rule(..)) { nest(sel, amp, s) } else { at_root(amp, s) });
            risky || suffix_after_reorder(b, &next, &next)
        }
        N::Media(b) | N::Supports(_, b) | N::Unknown(b) => suffix_after_reorder(b, sel, amp),
        N::AtRootBare(b) => suffix_after_reorder(b, &None, amp),
        _ => false,
    })
}

fn squash(s: &str) -> String {
    let t = s.split_whitespace().collect::<Vec<_>>().join(" ").replace(" ,", ",");
    if t.starts_with('@') || t == "from" || t == "to" { t } else { crate::selnorm::canon(&t) }
}

fn count(v: &[N], f: &dyn Fn(&N) -> bool) -> usize {
    v.iter()
        .map(|x| {
            usize::from(f(x))
                + match x {
                    N::Rule(_, b) | N::Media(b) | N::Supports(_, b) | N::Unknown(b) | N::AtRootSel(_, b) | N::AtRootBare(b) => count(b, f),
                    _ => 0,
                }
        })
        .sum()
}

impl Prop for C20 {
    type Case = Case;
    const ID: &'static str = "C20";
    fn new() -> Self {
        C20
    }
    fn rule(&self) -> String {
        "trees of depth <= 4 of style rules (simple, list, `&` suffix/pseudo/sibling/ancestor and child-combinator selectors), uniquely named declarations, @media (at most one per path), @supports (3 conditions), an unknown at-rule, `@at-root <selector>` with and without `&`, bare `@at-root { rules }`, @keyframes and @font-face, in every order. Oracle: a reference transformation lists, in document order, every declaration with its context path (enclosing at-rules outermost first, then the resolved selector; keyframe selectors and @font-face without any selector); the expanded output, read by the harness's CSS tree reader, must give exactly this list. That pins bubbling (no at-rule under a selector), the selector copy around nested declarations, declaration order, @at-root with and without `&`, and unprefixed keyframes. Non-trivial: an at-rule or @at-root below a style rule; distinct by case".into()
    }
    fn assumptions(&self) -> Vec<String> {
        vec![
            "one @media per path (query merging is outside the statement); declarations directly in a bare @at-root are not generated".into(),
            "selectors are compared after squashing white space; the generated selectors are already canonical".into(),
        ]
    }
    fn phases(&self, tier: Tier) -> Vec<Phase<Case>> {
        vec![Phase::random("trees", cases(), tier.pick(100_000, 2_000_000))]
    }
    fn render(&self, c: &Case) -> serde_json::Value {
        let mut s = String::new();
        render(&c.top, 0, &mut s);
        serde_json::json!({"source": s})
    }
    fn check(&self, c: &Case) -> Verdict {
        let mut src = String::new();
        render(&c.top, 0, &mut src);
        let mut want: Expected = vec![];
        model(&c.top, &vec![], &None, &None, &mut want);
        let out = match rs::compile(src.as_bytes(), &Opts::default()) {
            Res::Ok(b) => String::from_utf8_lossy(&b).to_string(),
            Res::Panic(m) => return Verdict::fail(format!("panic: {m}\n{src}")),
            e => return Verdict::fail(format!("valid input is rejected: {}\n{src}", e.brief().chars().take(300).collect::<String>())),
        };
        let got: Expected = match cssread::parse_sheet(cssread::strip_marker(&out)) {
            Ok(n) => cssread::flat_decls(&n).into_iter().map(|(p, name, _)| (p.iter().map(|s| squash(s)).collect(), name)).collect(),
            Err(e) => return Verdict::fail(format!("output is not readable CSS ({e}):\n{out}\nsource:\n{src}")),
        };
        let want: Expected = want.into_iter().map(|(p, n)| (p.iter().map(|s| squash(s)).collect(), n)).collect();
        if got != want {
            if suffix_after_reorder(&c.top, &None, &None) {
                return Verdict::known("C20-suffix-after-reordered-compound", format!("a suffix (`&-x`) is applied to a compound that rsass has reordered\nsource:\n{src}\noutput:\n{out}"));
            }
            let at = got.iter().zip(want.iter()).position(|(a, b)| a != b).unwrap_or(got.len().min(want.len()));
            return Verdict::fail(format!("declaration #{at}: got {:?}, expected {:?} ({} declarations in the output, {} expected)\nsource:\n{src}\noutput:\n{out}", got.get(at), want.get(at), got.len(), want.len()));
        }
        let below_rule = |v: &[N]| -> usize {
            fn go(v: &[N], in_rule: bool) -> usize {
                v.iter()
                    .map(|x| match x {
                        N::Rule(_, b) => go(b, true),
                        N::Media(b) | N::Supports(_, b) | N::Unknown(b) | N::AtRootSel(_, b) | N::AtRootBare(b) => usize::from(in_rule) + go(b, in_rule),
                        N::Keyframes(..) | N::FontFace(_) => usize::from(in_rule),
                        N::Decl(_) => 0,
                    })
                    .sum()
            }
            go(v, false)
        };
        Verdict::pass(below_rule(&c.top) > 0)
            .class_if(count(&c.top, &|x| matches!(x, N::AtRootSel(..) | N::AtRootBare(_))) > 0, "at-root")
            .class_if(count(&c.top, &|x| matches!(x, N::Media(_))) > 0, "media")
            .class_if(count(&c.top, &|x| matches!(x, N::Supports(..))) > 0, "supports")
            .class_if(count(&c.top, &|x| matches!(x, N::Unknown(_))) > 0, "unknown-at-rule")
            .class_if(count(&c.top, &|x| matches!(x, N::Keyframes(..))) > 0, "keyframes")
            .class_if(want.is_empty(), "no-declarations")
    }
}
