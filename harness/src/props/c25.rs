//! C25 Selector parsing and printing round-trip.

use crate::cssread::{self, Node};
use crate::engine::{Phase, Prop, Tier, Verdict};
use crate::gen::one_of;
use crate::rs::{self, Opts, Res};
use crate::selnorm;
use proptest::prelude::*;
use serde::{Deserialize, Serialize};

pub struct C25;

#[derive(Clone, Debug, Serialize, Deserialize)]
pub struct Case {
    pub sel: String,
}

fn name() -> BoxedStrategy<String> {
    prop_oneof![
        5 => one_of(&["a", "b", "c-d", "_e", "x1", "--v", "-w"]),
        2 => one_of(&["é", "日本", "ñ-x", "\u{3b1}"]),
        3 => one_of(&["\\31 ", "\\31 a", "\\31 0", "\\39 9x", "\\32 ", "\\30 ", "a\\.b", "a\\ b", "\\--x", "f\\6fo", "a\\:b", "\\@k", "x\\7e ", "\\e9 t", "a\\31 ", "\\1f600 ", "\\+1", "a\\a0 b", "a\\a1 b", "a\\80 b", "a\\9f b", "a\\7f b", "\\a0 b", "x\\0000a0y", "a\\ad b", "a\\200b c"]),
    ]
    .boxed()
}

fn simple() -> BoxedStrategy<String> {
    prop_oneof![
        4 => name().prop_map(|n| format!(".{n}")),
        2 => name().prop_map(|n| format!("#{n}")),
        1 => name().prop_map(|n| format!("%{n}")),
        3 => (name(), one_of(&["", "=", "~=", "|=", "^=", "$=", "*="]), prop_oneof![name(), name().prop_map(|n| format!("\"{n}\"")), Just("'q r'".to_string()), Just("\"\"".to_string()), Just("\"a\\\"b\"".to_string())], one_of(&["", "", " i", " s", " I"])).prop_map(|(k, op, v, m)| if op.is_empty() { format!("[{k}]") } else { format!("[{k}{op}{v}{m}]") }),
        1 => one_of(&["[ns|k]", "[*|k=v]", "[|k]"]),
        3 => one_of(&[":hover", ":focus", ":first-child", ":-moz-x", ":lang(en)", ":dir(rtl)", ":nth-child(2n+1)", ":nth-child( 2n + 1 )", ":nth-child(odd)", ":nth-child(-n+3)", ":nth-last-child(even of .a)", ":nth-child(2n+1 of a, .b)", ":nth-of-type(3)", ":NOT(.a)", ":Hover"]),
        2 => one_of(&["::before", "::after", "::selection", "::-webkit-y", "::part(foo)", ":before"]),
    ]
    .boxed()
}

fn compound(arg: BoxedStrategy<String>) -> BoxedStrategy<String> {
    (
        prop_oneof![4 => Just(String::new()), 3 => one_of(&["a", "div", "*", "ns|a", "*|b", "|c", "ns|*", "A", "\\31 x"])],
        proptest::collection::vec(prop_oneof![5 => simple(), 2 => (one_of(&["not", "is", "where", "matches", "has", "host", "slotted", "any", "-moz-any"]), arg).prop_map(|(p, a)| if p == "slotted" { format!("::{p}({a})") } else { format!(":{p}({a})") })], 0..3),
    )
        .prop_map(|(t, subs)| {
            // at most one id per compound (two ids match nothing, and rsass keeps only the last one)
            let mut seen_id = false;
            let subs: Vec<String> = subs.into_iter().filter(|x| if x.starts_with('#') { let keep = !seen_id; seen_id = true; keep } else { true }).collect();
            let s = format!("{t}{}", subs.concat());
            if s.is_empty() { ".z".to_string() } else { s }
        })
        .boxed()
}

fn complex(arg: BoxedStrategy<String>) -> BoxedStrategy<String> {
    (proptest::collection::vec((compound(arg.clone()), one_of(&[" ", "  ", " > ", ">", " + ", "+", " ~ ", "~", "\n", " >\n"])), 0..3), compound(arg)).prop_map(|(pre, last)| {
        let mut s = String::new();
        for (c, k) in pre {
            s.push_str(&c);
            s.push_str(&k);
        }
        s.push_str(&last);
        s
    })
    .boxed()
}

fn list() -> BoxedStrategy<String> {
    let leaf = one_of(&[".a", "b", ".c > d", "#i", ".a, .b", "e f"]);
    let arg = leaf.prop_recursive(2, 6, 2, |inner| proptest::collection::vec(complex(inner), 1..3).prop_map(|v| v.join(", ")));
    proptest::collection::vec(complex(arg.boxed()), 1..4).prop_map(|v| v.join(if v.len() % 2 == 0 { ", " } else { "," })).boxed()
}

/// token-level canonical form of a selector text under the independent CSS tokenizer (escapes decoded):
/// whitespace next to combinators, commas and brackets dropped, other runs collapsed; quoted and unquoted
/// attribute values alike
fn tok_canon(text: &str) -> Vec<String> {
    use cssread::Tok;
    let toks = cssread::tokenize(text);
    let mut out: Vec<String> = vec![];
    for t in toks {
        let item = match t {
            Tok::Ws => " ".to_string(),
            Tok::Ident(i) => format!("i:{i}"),
            Tok::Str(v) => format!("i:{v}"),
            Tok::Function(f) => format!("f:{}(", f.to_ascii_lowercase()),
            Tok::Hash(h) => format!("#:{h}"),
            Tok::Delim(c) => c.to_string(),
            Tok::Num(n, u) => format!("n:{n}{u}"),
            Tok::Colon => ":".into(),
            Tok::Comma => ",".into(),
            Tok::Open(c) | Tok::Close(c) => c.to_string(),
            other => format!("{other:?}"),
        };
        let tight = |s: &str| matches!(s, ">" | "+" | "~" | "," | "(" | ")" | "[" | "]" | "=" | "|" | "^" | "$" | "*");
        if item == " " {
            if out.last().is_none_or(|l| l == " " || tight(l)) {
                continue;
            }
            out.push(item);
        } else {
            if tight(&item) && out.last().is_some_and(|l| l == " ") {
                out.pop();
            }
            out.push(item);
        }
    }
    while out.last().is_some_and(|l| l == " ") {
        out.pop();
    }
    out
}

fn q(s: &str) -> String {
    format!("\"{}\"", s.replace('\\', "\\\\").replace('"', "\\\"").replace('\n', " "))
}


impl Prop for C25 {
    type Case = Case;
    const ID: &'static str = "C25";
    fn new() -> Self {
        C25
    }
    fn rule(&self) -> String {
        "selector lists of 1..3 complex selectors written with varied whitespace around combinators; compounds use type/universal selectors with and without namespaces, classes/ids/placeholders whose names hold escapes (digit-leading `\\31 a`, escaped punctuation, hex escapes with and without following hex digits, astral), non-ASCII names, attribute selectors with every operator, quoted and unquoted values and modifiers, :nth-* arguments (also `of S`), pseudo-elements, and :not/:is/:where/:matches/:has/:host/::slotted/:any with nested selector-list arguments. Oracle (only when selector.parse accepts S): t1 = text of parse(S); parse(t1) must succeed and equal parse(S); the text of parse(t1) must be t1; t1 is the selector emitted for `S { x: y }`; the text printed for the value selector.parse(S) must parse back to parse(S) as well. Non-trivial: S holds an escape, a non-ASCII name, an attribute selector, an nth argument or a selector pseudo; distinct by S".into()
    }
    fn phases(&self, tier: Tier) -> Vec<Phase<Case>> {
        vec![Phase::random("selectors", list().prop_map(|sel| Case { sel }), tier.pick(30_000, 1_500_000))]
    }
    fn check(&self, c: &Case) -> Verdict {
        let s = &c.sel;
        let nontrivial = s.contains('\\') || !s.is_ascii() || s.contains('[') || s.contains("nth") || s.contains('(');
        // does selector.parse accept it?  (its printed value is a Sass string, in which a backslash is written twice)
        let v1 = match rs::probes(&[format!("#{{selector.parse({})}}", q(s))]) {
            Ok(v) => v.into_iter().next().flatten().unwrap_or_default(),
            Err(Res::Panic(m)) => return Verdict::fail(format!("panic parsing {s:?}: {m}")),
            Err(_) => return Verdict::pass(false).class("rejected-by-selector.parse"),
        };
        if s.contains('%') {
            // rules with placeholders are C22's subject (they are filtered, not printed)
            return Verdict::pass(false).class("placeholder-rule");
        }
        // t1: the printed form, taken from the rule that is emitted for `S { x: y }`
        let emit = |sel: &str| -> Result<Option<String>, Res> {
            match rs::compile(format!("{sel} {{ x: y }}\n").as_bytes(), &Opts::default()) {
                Res::Ok(o) => {
                    let out = String::from_utf8_lossy(&o).to_string();
                    let body = cssread::strip_marker(&out).to_string();
                    if body.trim().is_empty() { Ok(None) } else { Ok(Some(body.split('{').next().unwrap_or("").trim_end().to_string())) }
                }
                r => Err(r),
            }
        };
        let t1 = match emit(s) {
            Ok(Some(t)) => t,
            Ok(None) => return if s.contains('%') { Verdict::pass(false).class("placeholder-rule") } else { Verdict::fail(format!("{s:?} {{x: y}} emits nothing")) },
            Err(Res::Panic(m)) => return Verdict::fail(format!("panic compiling the rule for {s:?}: {m}")),
            Err(e) => {
                let msg = format!("selector.parse accepts {s:?} but the rule fails: {}", e.brief().chars().take(120).collect::<String>());
                return if s.contains("[*|") { Verdict::known("C25-attribute-any-namespace-in-rule", msg) } else { Verdict::fail(msg) };
            }
        };
        if s.contains('%') {
            return Verdict::pass(false).class("placeholder-rule");
        }
        // independent reading: S and the printed form must denote the same tokens (escapes decoded by the CSS tokenizer)
        if !(s.contains("nth") || s.contains("n+") || s.contains("n +")) && tok_canon(&selnorm::canon(&s.replace('\n', " "))) != tok_canon(&selnorm::canon(&t1)) {
            // (nth arguments are re-spaced by the printer: `2n+1` / `2n + 1`)
            let lower = |v: Vec<String>| v.into_iter().map(|x| x.to_ascii_lowercase()).collect::<Vec<_>>();
            if lower(tok_canon(&selnorm::canon(&s.replace('\n', " ")))) != lower(tok_canon(&selnorm::canon(&t1))) {
                let msg = format!("{s:?} is printed as {t1:?}, which reads as different tokens: {:?} vs {:?}", tok_canon(s), tok_canon(&t1));
                let digit_type = s.starts_with("\\3") || [" \\3", ">\\3", "+\\3", "~\\3", "(\\3", ",\\3", "\n\\3"].iter().any(|p| s.contains(p));
                return if digit_type { Verdict::known("C25-escaped-digit-type-selector", msg) } else { Verdict::fail(msg) };
            }
        }
        // the value printed for selector.parse(S) (a Sass string: every backslash is written twice) must parse back
        // to the same selector list; its text may differ from the emitted one in equivalent spellings ([a="a"] / [a=a])
        let v1 = v1.replace("\\\\", "\\");
        match rs::probes(&[format!("selector.parse({}) == selector.parse({})", q(&v1), q(s))]) {
            Ok(v) if v[0].as_deref() == Some("true") => {}
            Ok(v) => return esc(s, format!("selector.parse({s:?}) prints {v1:?}, which parses to a different selector list ({:?})", v[0])),
            Err(Res::Panic(m)) => return Verdict::fail(format!("panic re-parsing {v1:?}: {m}")),
            Err(e) => return not_reparsed(&v1, format!("selector.parse({s:?}) prints {v1:?}, which does not parse again: {}", e.brief().chars().take(120).collect::<String>())),
        }
        // parse(t1) must succeed and equal parse(S)
        match rs::probes(&[format!("selector.parse({}) == selector.parse({})", q(&t1), q(s))]) {
            Ok(v) if v[0].as_deref() == Some("true") => {}
            Ok(v) => return esc(s, format!("parse({s:?}) prints {t1:?}, which parses to a different selector list ({:?})", v[0])),
            Err(Res::Panic(m)) => return Verdict::fail(format!("panic re-parsing {t1:?} (printed for {s:?}): {m}")),
            Err(e) => return not_reparsed(&t1, format!("parse({s:?}) prints {t1:?}, which does not parse again: {}", e.brief().chars().take(120).collect::<String>())),
        }
        // printing is stable
        match emit(&t1) {
            Ok(Some(t2)) if t2 == t1 => Verdict::pass(nontrivial).class("round-trip"),
            Ok(t2) => Verdict::fail(format!("printing is not stable: {s:?} prints {t1:?}, and that prints {t2:?}")),
            Err(e) => Verdict::fail(format!("{s:?} prints {t1:?}, which fails as a rule: {}", e.brief().chars().take(120).collect::<String>())),
        }
    }
}

/// known deviation: some escapes that the printer writes in backslash form (`[x\~~=a]`, an escaped `~` before the `~=`
/// operator) are not accepted by rsass's own selector reader; printed text without a backslash must always parse
fn not_reparsed(printed: &str, msg: String) -> Verdict {
    if printed.contains('\\') { Verdict::known("C25-printed-escape-not-reparsed", msg) } else { Verdict::fail(msg) }
}

/// known deviation: selector.parse keeps the escape spelling of a name (`x\7e ` and `x\~` are different names to
/// it) while the printer normalises it, so a selector with an escape may not survive print + parse
fn esc(s: &str, msg: String) -> Verdict {
    if s.contains('\\') || s.contains('"') || s.contains('\'') { Verdict::known("C25-escape-spelling-kept-by-selector-parse", msg) } else { Verdict::fail(msg) }
}
