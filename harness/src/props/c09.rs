//! C09 rsass's own CSS output reads back as the same stylesheet.

use crate::cssread::{self, Tok};
use crate::engine::{Phase, Prop, Tier, Verdict};
use crate::gen::{one_of, sel};
use crate::rs::{self, Opts, Res};
use proptest::prelude::*;
use serde::{Deserialize, Serialize};

pub struct C09;

#[derive(Clone, Debug, Serialize, Deserialize)]
pub struct Case {
    pub text: String,
}

/// write arbitrary text as a double-quoted SCSS string literal
pub fn scss_quote(s: &str) -> String {
    let mut o = String::from("\"");
    let cs: Vec<char> = s.chars().collect();
    for (i, c) in cs.iter().enumerate() {
        match c {
            '"' => o.push_str("\\\""),
            '\\' => o.push_str("\\\\"),
            '#' if cs.get(i + 1) == Some(&'{') => o.push_str("\\#"),
            c if (*c as u32) < 0x20 || *c as u32 == 0x7f => o.push_str(&format!("\\{:x} ", *c as u32)),
            c => o.push(*c),
        }
    }
    o.push('"');
    o
}

fn string_content() -> BoxedStrategy<String> {
    let ch = prop_oneof![
        6 => proptest::char::range('a', 'z'),
        2 => proptest::char::range(' ', '~'),
        1 => prop_oneof![Just('"'), Just('\''), Just('\\'), Just('#'), Just('{'), Just('}'), Just('/'), Just('*'), Just(';')],
        1 => prop_oneof![Just('\n'), Just('\t'), Just('\r'), Just('\u{1}'), Just('\u{7f}'), Just('\u{c}'), Just('\u{1f}')],
        2 => prop_oneof![Just('é'), Just('ß'), Just('日'), Just('\u{a0}'), Just('\u{2028}'), Just('\u{feff}'), Just('\u{301}')],
        1 => prop_oneof![Just('\u{e000}'), Just('\u{f8ff}'), Just('😀'), Just('\u{10ffff}'), Just('\u{1f469}'), Just('\u{fffd}')],
        1 => any::<char>().prop_filter("no NUL", |c| *c != '\0'),
    ];
    proptest::collection::vec(ch, 0..8).prop_map(|v| v.into_iter().collect()).boxed()
}

/// identifiers whose characters are written raw or as escapes (hex with terminating space, or `\c`)
fn escaped_ident() -> BoxedStrategy<String> {
    let ch = prop_oneof![
        6 => proptest::char::range('a', 'z').prop_map(|c| c.to_string()),
        1 => proptest::char::range('a', 'z').prop_map(|c| format!("\\{:x} ", c as u32)),
        1 => proptest::char::range('0', '9').prop_map(|c| format!("\\{:x} ", c as u32)),
        1 => prop_oneof![Just('é'), Just('ß'), Just('日'), Just('ü')].prop_map(|c| c.to_string()),
        2 => prop_oneof![Just(0xa0u32), Just(0xa1), Just(0x9f), Just(0x80), Just(0x7f), Just(0xe9), Just(0x2603), Just(0x1f600), Just(0xe000), Just(0x20), Just(0x21), Just(0x2e), Just(0x7e), Just(0x2d), Just(0x5f), Just(0x301), Just(0xfeff), Just(0x10ffff)].prop_map(|c| format!("\\{c:x} ")),
        1 => prop_oneof![Just('.'), Just('!'), Just('~'), Just('+'), Just('#'), Just('@'), Just('$'), Just('%'), Just('&'), Just('*'), Just('='), Just(':'), Just('/'), Just('?'), Just('|')].prop_map(|c| format!("\\{c}")),
    ];
    (proptest::char::range('a', 'z'), proptest::collection::vec(ch, 1..5)).prop_map(|(f, v)| format!("{f}{}", v.concat())).boxed()
}

fn ident() -> BoxedStrategy<String> {
    one_of(&["a", "bold", "sans-serif", "-moz-box", "_x", "x1", "é", "日本", "\\31 0", "\\31 x", "a\\.b", "a\\ b", "\\--x", "f\\6fo", "UPPER", "none", "inherit"])
}

fn value() -> BoxedStrategy<String> {
    let num = (prop_oneof![(-100i32..1000).prop_map(|n| n.to_string()), (0u32..100000, 1u32..6).prop_map(|(n, d)| format!("{}", n as f64 / 10f64.powi(d as i32))), one_of(&["0", "-0.5", ".25", "1e3", "100", "0.0001"])], one_of(&["", "", "px", "em", "%", "deg", "s", "rem", "vh", "fr", "dpi"])).prop_map(|(n, u)| format!("{n}{u}"));
    let hex = prop_oneof!["[0-9a-f]{3}", "[0-9a-f]{6}", "[0-9A-F]{6}", "[0-9a-f]{4}", "[0-9a-f]{8}"].prop_map(|h| format!("#{h}"));
    let single = prop_oneof![
        3 => ident(),
        2 => escaped_ident(),
        3 => num,
        2 => hex,
        4 => string_content().prop_map(|s| scss_quote(&s)),
        1 => one_of(&["url(x.png)", "url(\"x y.png\")", "url(data:image/png;base64,AAA=)", "url(a/b.c?d=e#f)"]),
        1 => string_content().prop_map(|s| format!("url({})", scss_quote(&s))),
        1 => one_of(&["translate(10px, 20%)", "rotate(45deg)", "var(--x)", "var(--x, 1px)", "attr(data-x)", "counter(c)", "foo(a, b c)", "cubic-bezier(0.1, 0.7, 1, 0.1)", "format(\"woff\")", "local(\"é\")"]),
    ];
    prop_oneof![
        3 => single.clone(),
        1 => (single.clone(), single.clone()).prop_map(|(a, b)| format!("{a} {b}")),
        1 => (single.clone(), single.clone()).prop_map(|(a, b)| format!("{a}, {b}")),
        1 => (single.clone(), single.clone(), single).prop_map(|(a, b, c)| format!("{a} {b}, {c}")),
    ]
    .boxed()
}

fn decl() -> BoxedStrategy<String> {
    (prop_oneof![6 => one_of(&["color", "width", "font-family", "content", "margin", "-webkit-x", "background", "transition", "grid-area", "é"]), 1 => escaped_ident()], value()).prop_map(|(p, v)| format!("{p}: {v};")).boxed()
}

fn selector() -> BoxedStrategy<String> {
    prop_oneof![
        4 => sel::safe_list(),
        1 => one_of(&[".\\31 0", "#\\31 x", ".a\\.b", ".é", "#日本", "[data-x=\"a b\"]", "[k='it\\'s']", "a[href^=\"http://\"]", "[k=\"é\"]", "li:nth-child(2n + 1)", "a:not(.b):hover", "p::first-line", "ns|a", "*|*", "a > b ~ c + d", "h1, h2 > em, .x .y"]),
        1 => string_content().prop_map(|s| format!("[data-s={}]", scss_quote(&s))),
        1 => escaped_ident().prop_map(|i| format!(".{i}")),
        1 => escaped_ident().prop_map(|i| format!("#{i} > [{i}]")),
        1 => (escaped_ident(), escaped_ident()).prop_map(|(i, j)| format!("a[{i}={j}]:hover")),
    ]
    .boxed()
}

fn rule() -> BoxedStrategy<String> {
    (selector(), proptest::collection::vec(prop_oneof![6 => decl(), 1 => Just("/* c */".to_string()), 1 => Just("/* multi\n   line */".to_string()), 1 => crate::gen::one_of(&["/** doc **/", "/* stars ***/", "/***/", "/****/", "/* a * b ** c */", "/*! keep **/", "/**/", "/* / * / */", "/*\n * x\n **/"])], 1..4)).prop_map(|(s, d)| format!("{s} {{\n  {}\n}}", d.join("\n  "))).boxed()
}

fn item() -> BoxedStrategy<String> {
    let rules = proptest::collection::vec(rule(), 1..3).prop_map(|v| v.join("\n"));
    prop_oneof![
        6 => rule(),
        1 => Just("/* top comment */".to_string()),
        1 => crate::gen::one_of(&["/** banner **/", "/***** x *****/", "/* end ***/", "/***/", "/*! license **/"]),
        1 => string_content().prop_map(|s| format!("/* {} */", s.replace("*/", "* /").replace('\\', "/").replace("#{", "# {").replace('\r', " "))),
        2 => (one_of(&["screen", "print and (min-width: 100px)", "(max-width: 30em)", "not all and (monochrome)", "screen, print"]), rules.clone()).prop_map(|(q, r)| format!("@media {q} {{\n{r}\n}}")),
        1 => (one_of(&["(display: grid)", "not (display: grid)", "(a: b) and (c: d)"]), rules.clone()).prop_map(|(q, r)| format!("@supports {q} {{\n{r}\n}}")),
        1 => proptest::collection::vec(decl(), 1..3).prop_map(|d| format!("@font-face {{\n  font-family: \"F é\";\n  src: url(f.woff) format(\"woff\");\n  {}\n}}", d.join("\n  "))),
        1 => (one_of(&["k", "slide-in", "é"]), proptest::collection::vec(decl(), 1..3)).prop_map(|(n, d)| format!("@keyframes {n} {{\n  from {{\n    {}\n  }}\n  50% {{\n    a: b;\n  }}\n  to {{\n    c: d;\n  }}\n}}", d.join("\n    "))),
    ]
    .boxed()
}

fn sheet() -> impl Strategy<Value = Case> {
    proptest::collection::vec(item(), 1..5).prop_map(|v| Case { text: v.join("\n") + "\n" })
}

fn no_blank(s: &str) -> String {
    s.lines().filter(|l| !l.trim().is_empty()).collect::<Vec<_>>().join("\n")
}

fn strings_of(text: &str) -> Vec<String> {
    cssread::tokenize(cssread::strip_marker(text)).into_iter().filter_map(|t| match t {
        Tok::Str(s) => Some(s),
        Tok::Url(u) => Some(u),
        _ => None,
    }).collect()
}

impl Prop for C09 {
    type Case = Case;
    const ID: &'static str = "C09";
    fn new() -> Self {
        C09
    }
    fn rule(&self) -> String {
        "stylesheets inside the stated subset: selector lists (type, universal, class, id, attribute with all operators, pseudo-classes/elements, combinators, escaped and digit-leading identifiers, namespaces), declarations built from identifiers (plain, escaped, non-ASCII), numbers with units, hex colours (3/4/6/8 digits), quoted strings of 0..8 arbitrary Unicode scalar values (quotes, backslashes, controls, private use, astral, combining), url() quoted and unquoted, simple function calls; @media/@supports/@font-face/@keyframes and comments. Oracle: o1 = expanded(scss S), o2 = expanded(css o1); o2 must equal o1 up to blank lines or, failing that, have the same token stream under the independent tokenizer (escape spelling may differ, the denoted tokens may not), and the decoded string/url tokens of o1 and o2 (independent tokenizer) must be equal. Non-trivial: o1 holds a rule and an escape, non-ASCII text, an at-rule, a combinator or an attribute selector; distinct by source".into()
    }
    fn assumptions(&self) -> Vec<String> {
        vec!["cases whose first compilation fails are outside the domain (discarded and counted)".into()]
    }
    fn phases(&self, tier: Tier) -> Vec<Phase<Case>> {
        vec![Phase::random("roundtrip", sheet(), tier.pick(30_000, 1_500_000))]
    }
    fn check(&self, c: &Case) -> Verdict {
        let o1 = match rs::compile(c.text.as_bytes(), &Opts::default()) {
            Res::Ok(b) => b,
            Res::Err { text, .. } => return Verdict::discard(format!("domain: source does not compile: {}", text.lines().next().unwrap_or(""))),
            Res::Panic(m) => return Verdict::fail(format!("panic compiling the source: {m}")),
        };
        let t1 = String::from_utf8_lossy(&o1).to_string();
        let o2 = match rs::compile(&o1, &Opts { css: true, ..Opts::default() }) {
            Res::Ok(b) => b,
            r => return Verdict::fail(format!("rsass cannot read its own output back: {} -- output was {:?}", r.brief(), t1)),
        };
        let t2 = String::from_utf8_lossy(&o2).to_string();
        let nontrivial = t1.contains('{') && (t1.contains('\\') || !t1.is_ascii() || t1.contains('@') || t1.contains(" > ") || t1.contains(" + ") || t1.contains(" ~ ") || t1.contains('['));
        if no_blank(&t1) != no_blank(&t2) {
            // the texts differ: the stylesheets are still the same when the token streams (escapes decoded by the
            // independent tokenizer, whitespace runs collapsed) are equal, e.g. `"\d"` vs `"\d "`
            let (k1, k2) = (cssread::tokenize(cssread::strip_marker(&t1)), cssread::tokenize(cssread::strip_marker(&t2)));
            if k1 != k2 {
                let (a, b) = (no_blank(&t1), no_blank(&t2));
                let la: Vec<&str> = a.lines().collect();
                let lb: Vec<&str> = b.lines().collect();
                let k = la.iter().zip(lb.iter()).position(|(x, y)| x != y).unwrap_or(la.len().min(lb.len()));
                return Verdict::fail(format!("read-back differs at line {k}: first {:?} then {:?}", la.get(k).unwrap_or(&"<end>"), lb.get(k).unwrap_or(&"<end>")));
            }
        }
        if strings_of(&t1) != strings_of(&t2) {
            return Verdict::fail(format!("decoded strings differ: {:?} vs {:?}", strings_of(&t1), strings_of(&t2)));
        }
        Verdict::pass(nontrivial).class_if(t1.contains('\\'), "escape-in-output").class_if(!t1.is_ascii(), "non-ascii").class_if(t1.contains('@'), "at-rule")
    }
}
