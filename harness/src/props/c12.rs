//! C12 Equality is symmetric and consistent with ordering.

use crate::engine::{Phase, Prop, Tier, Verdict};
use crate::gen::one_of;
use crate::rs::{self, Res};
use proptest::prelude::*;
use serde::{Deserialize, Serialize};

pub struct C12;

#[derive(Clone, Debug, Serialize, Deserialize)]
pub struct Val {
    pub text: String,
    /// number | string | color | list | map | bool | null | function
    pub kind: String,
    pub nan: bool,
    /// unit of a number ("" = unitless)
    pub unit: String,
}

#[derive(Clone, Debug, Serialize, Deserialize)]
pub struct Case {
    pub a: Val,
    pub b: Val,
}

fn v(text: impl Into<String>, kind: &str) -> Val {
    Val { text: text.into(), kind: kind.into(), nan: false, unit: String::new() }
}

const UNITS: &[&str] = &["", "", "", "px", "in", "cm", "mm", "pt", "deg", "rad", "turn", "s", "ms", "%", "em", "foo"];

/// f64 -> decimal literal with enough digits to round-trip
fn lit(x: f64) -> String {
    let s = format!("{x:.17e}");
    // d.ddddde[-]xx -> plain decimal
    let (m, e) = s.split_once('e').unwrap();
    let e: i32 = e.parse().unwrap();
    let neg = m.starts_with('-');
    let digits: String = m.chars().filter(|c| c.is_ascii_digit()).collect();
    let point = 1 + e; // position of the decimal point in `digits`
    let body = if point <= 0 {
        format!("0.{}{}", "0".repeat((-point) as usize), digits)
    } else if (point as usize) >= digits.len() {
        format!("{}{}", digits, "0".repeat(point as usize - digits.len()))
    } else {
        format!("{}.{}", &digits[..point as usize], &digits[point as usize..])
    };
    let body = if body.contains('.') { body.trim_end_matches('0').trim_end_matches('.').to_string() } else { body };
    format!("{}{}", if neg { "-" } else { "" }, body)
}

fn number() -> BoxedStrategy<Val> {
    let base = prop_oneof![
        3 => (-20i32..50).prop_map(|n| n as f64),
        3 => (0u32..100000, 0u32..5).prop_map(|(n, d)| n as f64 / 10f64.powi(d as i32)),
        2 => prop_oneof![Just(0.0), Just(1.0), Just(-1.0), Just(0.5), Just(2.0), Just(4.0), Just(0.1), Just(0.3), Just(1e-9), Just(1e9), Just(1e15), Just(96.0), Just(2.54), Just(1e-15), Just(1e-17), Just(1e-300)],
    ];
    (base, prop_oneof![4 => Just(0i64), 1 => -4i64..=4], proptest::sample::select(UNITS)).prop_map(|(x, ulps, u)| {
        let y = if x != 0.0 { f64::from_bits((x.to_bits() as i64 + ulps) as u64) } else { x };
        Val { text: format!("{}{u}", lit(y)), kind: "number".into(), nan: false, unit: u.to_string() }
    }).boxed()
}

fn special_number() -> BoxedStrategy<Val> {
    prop_oneof![
        Just(Val { text: "math.div(0,0)".into(), kind: "number".into(), nan: true, unit: String::new() }),
        Just(Val { text: "math.div(0px,0)".into(), kind: "number".into(), nan: true, unit: "px".into() }),
        Just(v("math.div(1,0)", "number")),
        Just(v("math.div(-1,0)", "number")),
        Just(v("-0", "number")),
        Just(v("0", "number")),
        Just(v("(1/3)", "number")),
        Just(v("math.div(1,3)", "number")),
        Just(v("0.3333333333333333", "number")),
        Just(v("(0.1 + 0.2)", "number")),
        Just(v("0.3", "number")),
        Just(Val { text: "math.div(96px,1)".into(), kind: "number".into(), nan: false, unit: "px".into() }),
        Just(Val { text: "(1px * 1px)".into(), kind: "number".into(), nan: false, unit: "px*px".into() }),
        Just(Val { text: "math.div(1, 1px)".into(), kind: "number".into(), nan: false, unit: "px^-1".into() }),
    ]
    .boxed()
}

fn string() -> BoxedStrategy<Val> {
    one_of(&["a", "\"a\"", "'a'", "b", "\"\"", "''", "unquote(\"\")", "\"a b\"", "a\\ b", "\"A\"", "red", "\"red\"", "true", "\"true\"", "null", "\"null\"", "\"1\"", "\"é\"", "é", "\"\\e9\"", "\"\\65\"", "e", "\"#{a}\"", "a#{b}", "a-b", "\"a-b\"", "\"a\\-b\"", "'a\\-b'", "\"a\\ b\"", "unquote(\"a\\ b\")", "unquote(\"a b\")", "\"x\\a y\"", "unquote(\"x\\a y\")", "\"\\\\\"", "unquote(\"\\\\\")", "'\\\\'"]).prop_map(|t| { let k = match t.as_str() { "true" => "bool", "null" => "null", "red" => "color", _ => "string" }; v(t, k) }).boxed()
}

fn scalar() -> BoxedStrategy<Val> {
    prop_oneof![
        6 => number(),
        2 => special_number(),
        3 => string(),
        3 => one_of(&["red", "#f00", "#ff0000", "#FF0000", "rgb(255, 0, 0)", "rgba(255, 0, 0, 1)", "hsl(0, 100%, 50%)", "hwb(0 0% 0%)", "rgba(255, 0, 0, 0.5)", "#ff000080", "transparent", "rgba(0,0,0,0)", "hsl(120, 50%, 50%)", "hwb(120 25% 25%)", "#40bf40", "rgb(64, 191, 64)", "hsl(357, 50%, 90%)", "hwb(357 85% 5%)", "blue", "#00f", "hsl(240, 100%, 50%)", "hsl(295, 56%, 17%)", "invert(invert(hsl(295, 56%, 17%)))", "lighten(red, 0%)", "hsl(math.div(0,0), 50%, 50%)"]).prop_map(|t| { let nan = t.contains("div(0,0)"); Val { nan, ..v(t, "color") } }),
        1 => one_of(&["true", "false", "null", "not true", "not null"]).prop_map(|t| { let k = if t == "null" { "null" } else { "bool" }; v(t, k) }),
        1 => one_of(&["get-function(\"red\")", "get-function(\"blue\")", "meta.get-function(\"red\")", "meta.get-function(\"red\", $module: \"color\")", "get-function(\"rgb\")"]).prop_map(|t| v(t, "function")),
    ]
    .boxed()
}

fn value() -> BoxedStrategy<Val> {
    scalar()
        .prop_recursive(2, 8, 3, |inner| {
            prop_oneof![
                2 => (inner.clone(), inner.clone(), 0usize..6).prop_map(|(a, b, s)| {
                    let t = match s { 0 => format!("({} {})", a.text, b.text), 1 => format!("({}, {})", a.text, b.text), 2 => format!("[{} {}]", a.text, b.text), 3 => format!("[{}, {}]", a.text, b.text), 4 => format!("list.slash({}, {})", a.text, b.text), _ => format!("list.join(({},), ({},), $separator: comma)", a.text, b.text) };
                    Val { text: t, kind: "list".into(), nan: a.nan || b.nan, unit: String::new() }
                }),
                1 => inner.clone().prop_map(|a| Val { text: format!("({},)", a.text), kind: "list".into(), nan: a.nan, unit: String::new() }),
                1 => inner.clone().prop_map(|a| Val { text: format!("[{}]", a.text), kind: "list".into(), nan: a.nan, unit: String::new() }),
                1 => prop_oneof![Just(v("()", "list")), Just(v("[]", "list")), Just(v("map.remove((a: 1), a)", "map")), Just(v("list.join((), (), $separator: comma)", "list"))],
                2 => (inner.clone(), inner.clone()).prop_map(|(a, b)| Val { text: format!("(k: {}, j: {})", a.text, b.text), kind: "map".into(), nan: a.nan || b.nan, unit: String::new() }),
                1 => (inner.clone(), inner.clone()).prop_map(|(a, b)| Val { text: format!("(j: {}, k: {})", b.text, a.text), kind: "map".into(), nan: a.nan || b.nan, unit: String::new() }),
                1 => inner.clone().prop_map(|a| Val { text: format!("(1: {})", a.text), kind: "map".into(), nan: a.nan, unit: String::new() }),
            ]
        })
        .boxed()
}

fn pairs() -> impl Strategy<Value = Case> {
    prop_oneof![
        3 => (value(), value()).prop_map(|(a, b)| Case { a, b }),
        3 => (number(), number()).prop_map(|(a, b)| Case { a, b }),
        // strings with each other (quoted / unquoted / escapes kept in the value)
        2 => (string(), string()).prop_map(|(a, b)| Case { a, b }),
        // perturbation twins: same magnitude a few ulps apart, possibly in convertible units
        3 => (prop_oneof![(1u32..2000).prop_map(|n| n as f64 / 8.0), (1u32..100000).prop_map(|n| n as f64 / 1000.0), Just(1.0), Just(0.3), Just(1e-12), Just(1e12)], -4i64..=4, 0usize..6).prop_map(|(x, ulps, conv)| {
            let y = f64::from_bits((x.to_bits() as i64 + ulps) as u64);
            let (ta, ua, tb, ub) = match conv {
                0 => (lit(x), "", lit(y), ""),
                1 => (lit(x), "px", lit(y), "px"),
                2 => (lit(x), "in", lit(y * 96.0), "px"),
                3 => (lit(x), "turn", lit(y * 360.0), "deg"),
                4 => (lit(x), "s", lit(y * 1000.0), "ms"),
                _ => (lit(x), "cm", lit(y * 10.0), "mm"),
            };
            Case { a: Val { text: format!("{ta}{ua}"), kind: "number".into(), nan: false, unit: ua.into() }, b: Val { text: format!("{tb}{ub}"), kind: "number".into(), nan: false, unit: ub.into() } }
        }),
        1 => value().prop_map(|a| Case { b: a.clone(), a }),
    ]
}

fn truth(t: &Option<String>) -> Option<bool> {
    match t.as_deref() {
        Some("true") => Some(true),
        Some("false") => Some(false),
        _ => None,
    }
}

impl Prop for C12 {
    type Case = Case;
    const ID: &'static str = "C12";
    fn new() -> Self {
        C12
    }
    fn rule(&self) -> String {
        "pairs of generated SassScript values: numbers (integers, decimals, tiny/huge, +-0..4 ulp perturbations written with 17 digits, with and without units, convertible twins such as x in / 96x px, NaN, infinities, unit products), strings in both quote styles and unquoted, colours in every notation incl. hsl/hwb twins, booleans, null, function references, nested lists with every separator/bracket form, maps with permuted keys. Laws checked by compiling `a==b`, `b==a`, `a!=b`, `b!=a`, `a==a`, `b==b` and, for two numbers, `<` `>` `<=` `>=` each on its own. Non-trivial: both of the same kind and not textually identical; distinct by pair".into()
    }
    fn assumptions(&self) -> Vec<String> {
        vec![
            "the ordering law (exactly one of <, ==, >) is judged only when both `<` and `>` evaluate, and not for pairs with exactly one unitless number (Sass itself makes 1 == 1px false while ordering them as equal)".into(),
            "`a == a` is not required when a contains NaN".into(),
        ]
    }
    fn phases(&self, tier: Tier) -> Vec<Phase<Case>> {
        vec![Phase::random("pairs", pairs(), tier.pick(40_000, 2_000_000))]
    }
    fn check(&self, c: &Case) -> Verdict {
        let (a, b) = (&c.a.text, &c.b.text);
        let exprs = vec![format!("({a}) == ({b})"), format!("({b}) == ({a})"), format!("({a}) != ({b})"), format!("({b}) != ({a})"), format!("({a}) == ({a})"), format!("({b}) == ({b})")];
        let r = match rs::probes(&exprs) {
            Ok(r) => r,
            Err(Res::Panic(m)) => return Verdict::fail(format!("panic comparing {a} and {b}: {m}")),
            Err(e) => return Verdict::discard(format!("domain: values do not evaluate: {}", e.brief().chars().take(80).collect::<String>())),
        };
        let t: Vec<Option<bool>> = r.iter().map(truth).collect();
        if t.iter().any(|x| x.is_none()) {
            return Verdict::fail(format!("a comparison of {a} and {b} did not print true/false: {r:?}"));
        }
        let t: Vec<bool> = t.into_iter().map(|x| x.unwrap()).collect();
        let nontrivial = c.a.kind == c.b.kind && a != b;
        let mut verdict = Verdict::pass(nontrivial).class(format!("{}/{}", c.a.kind.clone().min(c.b.kind.clone()), c.a.kind.clone().max(c.b.kind.clone()))).class_if(t[0], "equal");
        if t[0] != t[1] {
            let msg = format!("`{a} == {b}` is {} but `{b} == {a}` is {}", t[0], t[1]);
            return if c.a.kind == "number" && c.b.kind == "number" { Verdict::known("C12-number-eq-asymmetric", msg) } else { Verdict::fail(msg) };
        }
        if t[2] == t[0] || t[3] == t[1] {
            return Verdict::fail(format!("`!=` is not the negation of `==` for {a} and {b}: ==:{} !=:{} (reversed ==:{} !=:{})", t[0], t[2], t[1], t[3]));
        }
        if !c.a.nan && !t[4] {
            return Verdict::fail(format!("`{a} == {a}` is false"));
        }
        if !c.b.nan && !t[5] {
            return Verdict::fail(format!("`{b} == {b}` is false"));
        }
        if c.a.kind == "number" && c.b.kind == "number" && !c.a.nan && !c.b.nan {
            let rel: Vec<Option<bool>> = ["<", ">", "<=", ">="].iter().map(|op| rs::inspect(&format!("({a}) {op} ({b})")).ok().and_then(|s| truth(&Some(s)))).collect();
            if let (Some(lt), Some(gt)) = (rel[0], rel[1]) {
                let one_unitless = c.a.unit.is_empty() != c.b.unit.is_empty();
                if !one_unitless {
                    verdict = verdict.class("ordered");
                    let n = [lt, t[0], gt].iter().filter(|x| **x).count();
                    if n != 1 {
                        let msg = format!("for {a} and {b}: <:{lt} ==:{} >:{gt} (exactly one must hold)", t[0]);
                        return Verdict::fail(msg);
                    }
                    if let Some(le) = rel[2] {
                        if le != (lt || t[0]) {
                            return Verdict::fail(format!("for {a} and {b}: <=:{le} but <:{lt} ==:{}", t[0]));
                        }
                    }
                    if let Some(ge) = rel[3] {
                        if ge != (gt || t[0]) {
                            return Verdict::fail(format!("for {a} and {b}: >=:{ge} but >:{gt} ==:{}", t[0]));
                        }
                    }
                }
            }
        }
        verdict
    }
}
