//! C30 calc() simplifies soundly.

use crate::engine::{Phase, Prop, Tier, Verdict};
use crate::rs::{self, Res};
use proptest::prelude::*;
use serde::{Deserialize, Serialize};
use std::collections::BTreeMap;

pub struct C30;

#[derive(Clone, Debug, Serialize, Deserialize, PartialEq)]
pub enum T {
    /// value in hundredths, unit ("" = unitless)
    Num(i32, String),
    Var(String),
    Ident(String),
    Add(Box<T>, Box<T>),
    Sub(Box<T>, Box<T>),
    Mul(Box<T>, Box<T>),
    Div(Box<T>, Box<T>),
    Paren(Box<T>),
    Min(Vec<T>),
    Max(Vec<T>),
    Clamp(Box<T>, Box<T>, Box<T>),
    Calc(Box<T>),
}

#[derive(Clone, Debug, Serialize, Deserialize)]
pub struct Case {
    pub tree: T,
    /// wrap the tree in calc() (a function root is used as it is when false)
    pub wrap: bool,
}

const ABS: &[(&str, f64)] = &[("px", 1.0), ("in", 96.0), ("cm", 96.0 / 2.54), ("pt", 96.0 / 72.0), ("mm", 96.0 / 25.4), ("pc", 16.0), ("q", 96.0 / 101.6)];
const REL: &[&str] = &["em", "%", "vw", "rem"];

fn fnum(v: i32) -> String {
    let s = format!("{:.2}", v as f64 / 100.0);
    let s = s.trim_end_matches('0').trim_end_matches('.').to_string();
    if s == "-0" { "0".into() } else { s }
}

fn show(t: &T) -> String {
    match t {
        T::Num(v, u) => format!("{}{u}", fnum(*v)),
        T::Var(n) => format!("var(--{n})"),
        T::Ident(n) => n.clone(),
        T::Add(a, b) => format!("{} + {}", show(a), show(b)),
        T::Sub(a, b) => format!("{} - {}", show(a), show(b)),
        T::Mul(a, b) => format!("{} * {}", show(a), show(b)),
        T::Div(a, b) => format!("{} / {}", show(a), show(b)),
        T::Paren(a) => format!("({})", show(a)),
        T::Min(v) => format!("min({})", v.iter().map(show).collect::<Vec<_>>().join(", ")),
        T::Max(v) => format!("max({})", v.iter().map(show).collect::<Vec<_>>().join(", ")),
        T::Clamp(a, b, c) => format!("clamp({}, {}, {})", show(a), show(b), show(c)),
        T::Calc(a) => format!("calc({})", show(a)),
    }
}

impl Case {
    pub fn text(&self) -> String {
        let is_fn = matches!(self.tree, T::Min(_) | T::Max(_) | T::Clamp(..) | T::Calc(_));
        if self.wrap || !is_fn { format!("calc({})", show(&self.tree)) } else { show(&self.tree) }
    }
}

// ---------- generator: L = length-typed, N = unitless ----------

fn n_leaf() -> BoxedStrategy<T> {
    prop_oneof![3 => (1i32..=9).prop_map(|v| T::Num(v * 100, String::new())), 2 => (-2000i32..=2000).prop_filter("non-zero", |v| *v != 0).prop_map(|v| T::Num(v, String::new())), 1 => proptest::sample::select(vec![50, 25, 150, -100, 200]).prop_map(|v| T::Num(v, String::new()))].boxed()
}

fn n_expr(opaque: bool) -> BoxedStrategy<T> {
    let plain = prop_oneof![
        5 => n_leaf(),
        1 => (n_leaf(), n_leaf()).prop_map(|(a, b)| T::Paren(Box::new(T::Add(Box::new(a), Box::new(b))))),
        1 => (n_leaf(), n_leaf()).prop_map(|(a, b)| T::Mul(Box::new(a), Box::new(b))),
    ]
    .prop_filter("does not evaluate to zero", |t| eval(t, &Env::default()).map(|v| v.abs() > 1e-9).unwrap_or(false));
    if !opaque {
        return plain.boxed();
    }
    // unitless sub-expressions that cannot be simplified: a var() in a sum, difference or product
    let var = || proptest::sample::select(vec!["x", "y"]).prop_map(|n| T::Var(n.into()));
    prop_oneof![
        8 => plain,
        1 => var(),
        1 => (n_leaf(), var(), any::<bool>()).prop_map(|(a, v, plus)| T::Paren(Box::new(if plus { T::Add(Box::new(a), Box::new(v)) } else { T::Sub(Box::new(v), Box::new(a)) }))),
        1 => (n_leaf(), var()).prop_map(|(a, v)| T::Paren(Box::new(T::Mul(Box::new(a), Box::new(v))))),
    ]
    .boxed()
}

fn l_leaf(units: &'static [&'static str], opaque: bool) -> BoxedStrategy<T> {
    let num = (-3000i32..=3000, proptest::sample::select(units)).prop_map(|(v, u)| T::Num(v, u.to_string()));
    if opaque {
        prop_oneof![8 => num, 2 => proptest::sample::select(vec!["x", "y"]).prop_map(|n| T::Var(n.into())), 1 => proptest::sample::select(vec!["a", "b-c"]).prop_map(|n| T::Ident(n.into()))].boxed()
    } else {
        num.boxed()
    }
}

fn l_expr(units: &'static [&'static str], opaque: bool, depth: u32) -> BoxedStrategy<T> {
    let leaf = l_leaf(units, opaque);
    if depth == 0 {
        return leaf;
    }
    let sub = move || l_expr(units, opaque, depth - 1);
    let b = |t: T| Box::new(t);
    prop_oneof![
        4 => leaf,
        3 => (sub(), sub()).prop_map(move |(x, y)| T::Add(b(x), b(y))),
        3 => (sub(), sub()).prop_map(move |(x, y)| T::Sub(b(x), b(paren_if_sum(y)))),
        2 => (sub(), n_expr(opaque)).prop_map(move |(x, n)| T::Mul(b(paren_if_sum(x)), b(n))),
        1 => (n_expr(opaque), sub()).prop_map(move |(n, x)| T::Mul(b(n), b(paren_if_sum(x)))),
        2 => (sub(), n_expr(opaque)).prop_map(move |(x, n)| T::Div(b(paren_if_sum(x)), b(paren_if_op(n)))),
        2 => sub().prop_map(move |x| T::Paren(b(x))),
        1 => proptest::collection::vec(sub(), 1..4).prop_map(T::Min),
        1 => proptest::collection::vec(sub(), 1..4).prop_map(T::Max),
        1 => (sub(), sub(), sub()).prop_map(move |(x, y, z)| T::Clamp(b(x), b(y), b(z))),
        1 => sub().prop_map(move |x| T::Calc(b(x))),
    ]
    .boxed()
}

/// keep the tree shape equal to what the text means: a sum below a product or on the right of a minus needs parentheses
fn paren_if_sum(t: T) -> T {
    match t {
        T::Add(..) | T::Sub(..) => T::Paren(Box::new(t)),
        t => t,
    }
}
fn paren_if_op(t: T) -> T {
    match t {
        T::Add(..) | T::Sub(..) | T::Mul(..) | T::Div(..) => T::Paren(Box::new(t)),
        t => t,
    }
}

fn count_ops(t: &T) -> usize {
    match t {
        T::Num(..) | T::Var(_) | T::Ident(_) => 0,
        T::Add(a, b) | T::Sub(a, b) | T::Mul(a, b) | T::Div(a, b) => 1 + count_ops(a) + count_ops(b),
        T::Paren(a) | T::Calc(a) => count_ops(a),
        T::Min(v) | T::Max(v) => 1 + v.iter().map(count_ops).sum::<usize>(),
        T::Clamp(a, b, c) => 1 + count_ops(a) + count_ops(b) + count_ops(c),
    }
}

const ABS_UNITS: &[&str] = &["px", "in", "cm", "pt", "mm", "pc", "q"];
const PX_ONLY: &[&str] = &["px"];
const MIXED_UNITS: &[&str] = &["px", "px", "in", "cm", "em", "%", "vw", "rem"];
const NO_UNITS: &[&str] = &[""];

fn cases() -> impl Strategy<Value = Case> {
    let tree = prop_oneof![
        3 => l_expr(ABS_UNITS, false, 3),
        1 => l_expr(PX_ONLY, false, 3),
        1 => l_expr(NO_UNITS, false, 3),
        5 => l_expr(MIXED_UNITS, true, 3),
    ];
    (tree.prop_filter("up to 6 operators", |t| count_ops(t) <= 6), any::<bool>()).prop_map(|(tree, wrap)| Case { tree, wrap })
}

// ---------- evaluation under an environment ----------

#[derive(Clone, Debug, Default)]
pub struct Env {
    /// px per relative unit
    pub rel: BTreeMap<String, f64>,
    /// value (px) of an opaque leaf
    pub opaque: BTreeMap<String, f64>,
}

fn unit_factor(u: &str, env: &Env) -> Option<f64> {
    if u.is_empty() {
        return Some(1.0);
    }
    let l = u.to_ascii_lowercase();
    if let Some((_, f)) = ABS.iter().find(|(n, _)| *n == l) {
        return Some(*f);
    }
    env.rel.get(&l).copied()
}

/// None: not evaluable (unknown unit or leaf, division by zero)
pub fn eval(t: &T, env: &Env) -> Option<f64> {
    Some(match t {
        T::Num(v, u) => *v as f64 / 100.0 * unit_factor(u, env)?,
        T::Var(n) => *env.opaque.get(&format!("var(--{n})"))?,
        T::Ident(n) => *env.opaque.get(n)?,
        T::Add(a, b) => eval(a, env)? + eval(b, env)?,
        T::Sub(a, b) => eval(a, env)? - eval(b, env)?,
        T::Mul(a, b) => eval(a, env)? * eval(b, env)?,
        T::Div(a, b) => {
            let d = eval(b, env)?;
            if d == 0.0 {
                return None;
            }
            eval(a, env)? / d
        }
        T::Paren(a) | T::Calc(a) => eval(a, env)?,
        T::Min(v) => v.iter().map(|x| eval(x, env)).collect::<Option<Vec<_>>>()?.into_iter().fold(f64::INFINITY, f64::min),
        T::Max(v) => v.iter().map(|x| eval(x, env)).collect::<Option<Vec<_>>>()?.into_iter().fold(f64::NEG_INFINITY, f64::max),
        T::Clamp(a, b, c) => {
            let (lo, x, hi) = (eval(a, env)?, eval(b, env)?, eval(c, env)?);
            // CSS: max(lo, min(x, hi))
            lo.max(x.min(hi))
        }
    })
}

fn leaves(t: &T, out: &mut Vec<String>, scale: &mut f64) {
    match t {
        T::Num(v, _) => *scale += (*v as f64 / 100.0).abs(),
        T::Var(n) => out.push(format!("var(--{n})")),
        T::Ident(n) => out.push(n.clone()),
        T::Add(a, b) | T::Sub(a, b) | T::Mul(a, b) | T::Div(a, b) => {
            leaves(a, out, scale);
            leaves(b, out, scale);
        }
        T::Paren(a) | T::Calc(a) => leaves(a, out, scale),
        T::Min(v) | T::Max(v) => v.iter().for_each(|x| leaves(x, out, scale)),
        T::Clamp(a, b, c) => {
            leaves(a, out, scale);
            leaves(b, out, scale);
            leaves(c, out, scale);
        }
    }
}

fn units_of(t: &T, out: &mut Vec<String>) {
    match t {
        T::Num(_, u) => out.push(u.clone()),
        T::Var(_) | T::Ident(_) => out.push("?".into()),
        T::Add(a, b) | T::Sub(a, b) => {
            units_of(a, out);
            units_of(b, out);
        }
        // the unitless side of a product does not take part in unit compatibility
        T::Mul(a, b) => {
            units_of(a, out);
            units_of(b, out);
        }
        T::Div(a, b) => {
            units_of(a, out);
            // a unitless divisor adds no unit, but an opaque one keeps the whole from being a number
            let mut l = vec![];
            let mut sc = 0.0;
            leaves(b, &mut l, &mut sc);
            if !l.is_empty() {
                out.push("?".into());
            }
        }
        T::Paren(a) | T::Calc(a) => units_of(a, out),
        T::Min(v) | T::Max(v) => v.iter().for_each(|x| units_of(x, out)),
        T::Clamp(a, b, c) => {
            units_of(a, out);
            units_of(b, out);
            units_of(c, out);
        }
    }
}

// ---------- reader for the emitted text ----------

struct Rd<'a> {
    s: &'a [u8],
    i: usize,
}
impl Rd<'_> {
    fn ws(&mut self) {
        while self.i < self.s.len() && self.s[self.i].is_ascii_whitespace() {
            self.i += 1;
        }
    }
    fn eat(&mut self, c: u8) -> bool {
        self.ws();
        if self.s.get(self.i) == Some(&c) {
            self.i += 1;
            true
        } else {
            false
        }
    }
    fn expr(&mut self) -> Option<T> {
        let mut l = self.term()?;
        loop {
            self.ws();
            match self.s.get(self.i) {
                Some(b'+') => {
                    self.i += 1;
                    let r = self.term()?;
                    l = T::Add(Box::new(l), Box::new(r));
                }
                Some(b'-') if self.s.get(self.i + 1).is_some_and(|c| c.is_ascii_whitespace()) => {
                    self.i += 1;
                    let r = self.term()?;
                    l = T::Sub(Box::new(l), Box::new(r));
                }
                _ => return Some(l),
            }
        }
    }
    fn term(&mut self) -> Option<T> {
        let mut l = self.factor()?;
        loop {
            self.ws();
            match self.s.get(self.i) {
                Some(b'*') => {
                    self.i += 1;
                    let r = self.factor()?;
                    l = T::Mul(Box::new(l), Box::new(r));
                }
                Some(b'/') => {
                    self.i += 1;
                    let r = self.factor()?;
                    l = T::Div(Box::new(l), Box::new(r));
                }
                _ => return Some(l),
            }
        }
    }
    fn factor(&mut self) -> Option<T> {
        self.ws();
        let c = *self.s.get(self.i)?;
        if c == b'(' {
            self.i += 1;
            let e = self.expr()?;
            if !self.eat(b')') {
                return None;
            }
            return Some(T::Paren(Box::new(e)));
        }
        if c.is_ascii_digit() || c == b'.' || ((c == b'-' || c == b'+') && self.s.get(self.i + 1).is_some_and(|d| d.is_ascii_digit() || *d == b'.')) {
            let st = self.i;
            self.i += 1;
            while self.i < self.s.len() && (self.s[self.i].is_ascii_digit() || self.s[self.i] == b'.') {
                self.i += 1;
            }
            // exponent
            if self.i < self.s.len() && (self.s[self.i] == b'e' || self.s[self.i] == b'E') && self.s.get(self.i + 1).is_some_and(|d| d.is_ascii_digit() || ((*d == b'-' || *d == b'+') && self.s.get(self.i + 2).is_some_and(|e| e.is_ascii_digit()))) {
                self.i += 2;
                while self.i < self.s.len() && self.s[self.i].is_ascii_digit() {
                    self.i += 1;
                }
            }
            let v: f64 = std::str::from_utf8(&self.s[st..self.i]).ok()?.parse().ok()?;
            let us = self.i;
            while self.i < self.s.len() && (self.s[self.i].is_ascii_alphabetic() || self.s[self.i] == b'%') {
                self.i += 1;
            }
            let u = std::str::from_utf8(&self.s[us..self.i]).ok()?.to_string();
            // keep full precision: Num holds hundredths, so use a scaled leaf
            return Some(T::Mul(Box::new(T::Num(100, u)), Box::new(T::Ident(format!("#{v}")))));
        }
        // identifier or function
        let st = self.i;
        while self.i < self.s.len() && (self.s[self.i].is_ascii_alphanumeric() || self.s[self.i] == b'-' || self.s[self.i] == b'_') {
            self.i += 1;
        }
        if st == self.i {
            return None;
        }
        let name = std::str::from_utf8(&self.s[st..self.i]).ok()?.to_string();
        if self.s.get(self.i) == Some(&b'(') {
            self.i += 1;
            if name == "var" {
                let vs = self.i;
                while self.i < self.s.len() && self.s[self.i] != b')' {
                    self.i += 1;
                }
                let inner = std::str::from_utf8(&self.s[vs..self.i]).ok()?.trim().to_string();
                self.i += 1;
                return Some(T::Var(inner.strip_prefix("--")?.to_string()));
            }
            let mut args = vec![self.expr()?];
            while self.eat(b',') {
                args.push(self.expr()?);
            }
            if !self.eat(b')') {
                return None;
            }
            return match (name.as_str(), args.len()) {
                ("calc", 1) => Some(T::Calc(Box::new(args.pop()?))),
                ("min", _) => Some(T::Min(args)),
                ("max", _) => Some(T::Max(args)),
                ("clamp", 3) => {
                    let c = args.pop()?;
                    let b = args.pop()?;
                    let a = args.pop()?;
                    Some(T::Clamp(Box::new(a), Box::new(b), Box::new(c)))
                }
                _ => None,
            };
        }
        Some(T::Ident(name))
    }
}

/// parse emitted text; literal numbers become `1<unit> * #<value>` so that no precision is lost
pub fn read(text: &str) -> Option<T> {
    let mut r = Rd { s: text.trim().as_bytes(), i: 0 };
    let t = r.expr()?;
    r.ws();
    if r.i == r.s.len() { Some(t) } else { None }
}

fn eval_emitted(t: &T, env: &Env) -> Option<f64> {
    match t {
        T::Ident(n) if n.starts_with('#') => n[1..].parse().ok(),
        T::Mul(a, b) => Some(eval_emitted(a, env)? * eval_emitted(b, env)?),
        T::Add(a, b) => Some(eval_emitted(a, env)? + eval_emitted(b, env)?),
        T::Sub(a, b) => Some(eval_emitted(a, env)? - eval_emitted(b, env)?),
        T::Div(a, b) => {
            let d = eval_emitted(b, env)?;
            if d == 0.0 { None } else { Some(eval_emitted(a, env)? / d) }
        }
        T::Paren(a) | T::Calc(a) => eval_emitted(a, env),
        T::Min(v) => Some(v.iter().map(|x| eval_emitted(x, env)).collect::<Option<Vec<_>>>()?.into_iter().fold(f64::INFINITY, f64::min)),
        T::Max(v) => Some(v.iter().map(|x| eval_emitted(x, env)).collect::<Option<Vec<_>>>()?.into_iter().fold(f64::NEG_INFINITY, f64::max)),
        T::Clamp(a, b, c) => Some(eval_emitted(a, env)?.max(eval_emitted(b, env)?.min(eval_emitted(c, env)?))),
        other => eval(other, env),
    }
}

fn emitted_leaves(t: &T, out: &mut Vec<String>) {
    match t {
        T::Ident(n) if n.starts_with('#') => {}
        T::Num(..) => {}
        T::Var(n) => out.push(format!("var(--{n})")),
        T::Ident(n) => out.push(n.clone()),
        T::Add(a, b) | T::Sub(a, b) | T::Mul(a, b) | T::Div(a, b) => {
            emitted_leaves(a, out);
            emitted_leaves(b, out);
        }
        T::Paren(a) | T::Calc(a) => emitted_leaves(a, out),
        T::Min(v) | T::Max(v) => v.iter().for_each(|x| emitted_leaves(x, out)),
        T::Clamp(a, b, c) => {
            emitted_leaves(a, out);
            emitted_leaves(b, out);
            emitted_leaves(c, out);
        }
    }
}

fn envs() -> Vec<Env> {
    // fixed, deliberately unrelated factors (part of the oracle, not of the random search)
    let sets: [([f64; 4], [f64; 4]); 5] = [
        ([16.0, 3.7, 9.1, 13.0], [5.5, -7.25, 100.0, 0.3]),
        ([1.3, 250.0, 0.07, 2.9], [-120.0, 44.0, 3.0, -0.9]),
        ([90.0, 0.4, 31.0, 0.011], [0.0, 1000.0, -3.5, 8.0]),
        ([7.7, 12.0, 1200.0, 17.0], [2000.0, -2000.0, 1.0, 50.0]),
        ([0.5, 41.0, 5.3, 66.0], [13.0, 0.125, -40.0, 7.0]),
    ];
    sets.iter()
        .map(|(r, o)| Env {
            rel: REL.iter().zip(r.iter()).map(|(n, v)| (n.to_string(), *v)).collect(),
            opaque: ["var(--x)", "var(--y)", "a", "b-c"].iter().zip(o.iter()).map(|(n, v)| (n.to_string(), *v)).collect(),
        })
        .collect()
}

impl Prop for C30 {
    type Case = Case;
    const ID: &'static str = "C30";
    fn new() -> Self {
        C30
    }
    fn rule(&self) -> String {
        "calculation trees of up to 6 operators/functions: leaves are numbers (two decimals) with absolute units (px in cm pt mm pc q), relative units (em % vw rem) or no unit, var(--x), identifiers; nodes are + - (length-typed operands), * and / by a unitless non-zero sub-expression, parentheses, min/max (1..3 arguments), clamp, nested calc; the tree is written inside calc() or used directly when its root is a function. Oracle 1: when every leaf is a number and all units are absolute (or all are absent), the output must be a plain number whose px value equals the reference evaluation. Oracle 2 (always): the emitted text is read by the harness's calc reader and both trees are evaluated under 5 fixed environments (px value per relative unit and per opaque leaf); the values must agree within 1e-7 of the magnitude of the leaves, and the multiset of opaque leaves must be equal. Non-trivial: at least 2 operators; distinct by case".into()
    }
    fn assumptions(&self) -> Vec<String> {
        vec![
            "operands are generated type-correct for CSS (sums of lengths, products with a unitless factor); an error from rsass on such input is reported as a failure".into(),
            "clamp(lo, x, hi) means max(lo, min(x, hi)), as CSS defines it (also when lo > hi)".into(),
        ]
    }
    fn phases(&self, tier: Tier) -> Vec<Phase<Case>> {
        vec![Phase::random("trees", cases(), tier.pick(150_000, 3_000_000))]
    }
    fn render(&self, c: &Case) -> serde_json::Value {
        serde_json::json!({"source": c.text()})
    }
    fn check(&self, c: &Case) -> Verdict {
        let text = c.text();
        let out = match rs::probes(&[text.clone()]) {
            Ok(r) => r[0].clone(),
            Err(Res::Panic(m)) => return Verdict::fail(format!("panic for {text}: {m}")),
            Err(e) => {
                let msg = format!("{text} is rejected: {}", e.brief().chars().take(200).collect::<String>());
                return self.classify_failure(c, msg);
            }
        };
        let Some(out) = out else { return Verdict::fail(format!("{text} produced no declaration")) };
        let Some(emitted) = read(&out) else {
            return self.classify_failure(c, format!("{text} is emitted as {out:?}, which is not a number or a calculation the reader understands"));
        };
        let mut src_leaves = vec![];
        let mut scale = 1.0;
        leaves(&c.tree, &mut src_leaves, &mut scale);
        let mut units = vec![];
        units_of(&c.tree, &mut units);
        let all_abs = units.iter().all(|u| ABS.iter().any(|(n, _)| n == u));
        let all_none = units.iter().all(|u| u.is_empty());
        let simple = all_abs || all_none;
        if simple && (out.contains('(') || out.contains(' ')) {
            return self.classify_failure(c, format!("{text} has only numbers with compatible units but is emitted as {out:?}, not as a number"));
        }
        let mut out_leaves = vec![];
        emitted_leaves(&emitted, &mut out_leaves);
        src_leaves.sort();
        out_leaves.sort();
        if src_leaves != out_leaves {
            return self.classify_failure(c, format!("{text} is emitted as {out:?}: opaque operands {out_leaves:?} instead of {src_leaves:?}"));
        }
        for env in envs() {
            let (Some(want), got) = (eval(&c.tree, &env), eval_emitted(&emitted, &env)) else { continue };
            let Some(got) = got else {
                return self.classify_failure(c, format!("{text} is emitted as {out:?}, which cannot be evaluated (unknown unit or division by zero)"));
            };
            let tol = 1e-7 * (scale * 2000.0).max(want.abs());
            if (want - got).abs() > tol {
                return self.classify_failure(
                    c,
                    format!("{text} is emitted as {out:?}: with {:?} and {:?} the source is {want}px but the output is {got}px", env.rel, env.opaque.iter().filter(|(k, _)| src_leaves.contains(k)).collect::<Vec<_>>()),
                );
            }
        }
        Verdict::pass(count_ops(&c.tree) >= 2).class_if(simple, "all-compatible-numbers").class_if(!src_leaves.is_empty(), "opaque-leaves").class_if(out.contains('('), "stays-a-calculation").class_if(!out.contains('('), "simplified-to-number")
    }
}

impl C30 {
    fn classify_failure(&self, c: &Case, msg: String) -> Verdict {
        fn has_ident(t: &T) -> bool {
            match t {
                T::Ident(_) => true,
                T::Num(..) | T::Var(_) => false,
                T::Add(a, b) | T::Sub(a, b) | T::Mul(a, b) | T::Div(a, b) => has_ident(a) || has_ident(b),
                T::Paren(a) | T::Calc(a) => has_ident(a),
                T::Min(v) | T::Max(v) => v.iter().any(has_ident),
                T::Clamp(a, b, c) => has_ident(a) || has_ident(b) || has_ident(c),
            }
        }
        if has_ident(&c.tree) && !msg.starts_with("panic") {
            return Verdict::known("C30-identifier-operand", msg);
        }
        Verdict::fail(msg)
    }
}
