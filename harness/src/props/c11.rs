//! C11 Unit arithmetic converts only with fixed CSS ratios.
//! Exhaustive over ordered unit pairs x operators, with a reference unit table.

use crate::engine::{Phase, Prop, Tier, Verdict};
use crate::rs::{self, Res};
use serde::{Deserialize, Serialize};
use std::collections::BTreeMap;

pub struct C11;

#[derive(Clone, Debug, Serialize, Deserialize)]
pub struct Case {
    pub m1: String,
    pub u1: String,
    pub op: String,
    pub m2: String,
    pub u2: String,
}

/// (unit, dimension, factor to the dimension's base unit) -- exact CSS ratios
pub const KNOWN: &[(&str, &str, f64)] = &[
    ("px", "length", 1.0), ("in", "length", 96.0), ("cm", "length", 96.0 / 2.54), ("mm", "length", 9.6 / 2.54), ("q", "length", 2.4 / 2.54), ("pt", "length", 96.0 / 72.0), ("pc", "length", 16.0),
    ("deg", "angle", 1.0), ("grad", "angle", 0.9), ("rad", "angle", 180.0 / std::f64::consts::PI), ("turn", "angle", 360.0),
    ("s", "time", 1.0), ("ms", "time", 0.001),
    ("Hz", "frequency", 1.0), ("kHz", "frequency", 1000.0),
    ("dppx", "resolution", 1.0), ("dpi", "resolution", 1.0 / 96.0), ("dpcm", "resolution", 2.54 / 96.0),
    ("em", "em", 1.0), ("ex", "ex", 1.0), ("ch", "ch", 1.0), ("rem", "rem", 1.0), ("vw", "vw", 1.0), ("vh", "vh", 1.0), ("vmin", "vmin", 1.0), ("vmax", "vmax", 1.0), ("%", "%", 1.0), ("fr", "fr", 1.0),
];
pub const UNKNOWN: &[&str] = &["foo", "bar"];

/// rsass's own grouping where it deviates (known finding C11-invented-unit-ratios): unit -> (group, factor)
const DEVIANT: &[(&str, &str, f64)] = &[("em", "emlike", 5.0), ("ex", "emlike", 3.0), ("ch", "emlike", 2.0), ("vmin", "vx", 1.0), ("vmax", "vx", 1.0), ("%", "none", 0.01), ("fr", "none", 1.0)];

#[derive(Clone, Debug, PartialEq)]
enum Kind {
    Unitless,
    Known(&'static str, f64),
    Unknown(String),
}

fn kind(u: &str, deviant: bool) -> Kind {
    if u.is_empty() {
        return Kind::Unitless;
    }
    if deviant {
        if let Some((_, d, f)) = DEVIANT.iter().find(|(n, _, _)| *n == u) {
            return Kind::Known(d, *f);
        }
    }
    match KNOWN.iter().find(|(n, _, _)| *n == u) {
        Some((_, d, f)) => Kind::Known(d, *f),
        None => Kind::Unknown(u.to_string()),
    }
}

/// magnitude and dimension exponents
type Quantity = (f64, BTreeMap<String, i32>);

fn quantity(m: f64, u: &str, deviant: bool) -> Quantity {
    let mut d = BTreeMap::new();
    match kind(u, deviant) {
        Kind::Unitless => (m, d),
        Kind::Known(dim, f) => {
            d.insert(dim.to_string(), 1);
            (m * f, d)
        }
        Kind::Unknown(n) => {
            d.insert(format!("?{n}"), 1);
            (m, d)
        }
    }
}

fn close(a: f64, b: f64) -> bool {
    (a - b).abs() <= 1e-9 * a.abs().max(b.abs()) + 1e-9
}

/// `12.5px`, `-3`, `1e3foo` -> (value, unit)
fn split_num(t: &str) -> Option<(f64, String)> {
    let t = t.trim();
    let bytes = t.as_bytes();
    let mut i = 0;
    if i < bytes.len() && (bytes[i] == b'-' || bytes[i] == b'+') {
        i += 1;
    }
    while i < bytes.len() && (bytes[i].is_ascii_digit() || bytes[i] == b'.') {
        i += 1;
    }
    if i == 0 || (i == 1 && !bytes[0].is_ascii_digit()) {
        return None;
    }
    let v: f64 = t[..i].parse().ok()?;
    let u = &t[i..];
    if !u.chars().all(|c| c.is_ascii_alphabetic() || c == '%') {
        return None;
    }
    // unit names are case sensitive in Sass (Hz, kHz); rsass prints `q` as `Q`
    Some((v, if u == "Q" { "q".to_string() } else { u.to_string() }))
}

/// parse what inspect() printed for a product/quotient: `6px`, `calc(6px * 1em / 1s)`, `96`
/// also returns the relative uncertainty of the printed text (inspect() prints 10 decimals)
fn parse_quantity(t: &str, deviant: bool) -> Option<(Quantity, f64)> {
    let inner = t.strip_prefix("calc(").and_then(|s| s.strip_suffix(')')).unwrap_or(t);
    let mut mag = 1.0;
    let mut dims: BTreeMap<String, i32> = BTreeMap::new();
    let mut sign = 1;
    let mut rel = 0.0;
    for (i, tok) in inner.split(' ').enumerate() {
        if i % 2 == 1 {
            sign = match tok {
                "*" => 1,
                "/" => -1,
                _ => return None,
            };
            continue;
        }
        let (v, u) = split_num(tok)?;
        if v != 0.0 {
            rel += 0.6e-10 / v.abs();
        }
        let (m, d) = quantity(v, &u, deviant);
        if sign == 1 {
            mag *= m;
        } else {
            mag /= m;
        }
        for (k, e) in d {
            *dims.entry(k).or_default() += sign * e;
        }
    }
    dims.retain(|_, e| *e != 0);
    Some(((mag, dims), rel))
}

#[derive(Debug, Clone, PartialEq)]
enum Expect {
    /// a number with exactly this unit
    Num(f64, String),
    Bool(bool),
    NotTrue,
    Error,
    Quantity(f64, BTreeMap<String, i32>),
    NotJudged,
}

fn expect(c: &Case, deviant: bool) -> Expect {
    let (m1, m2): (f64, f64) = (c.m1.parse().unwrap_or(0.0), c.m2.parse().unwrap_or(0.0));
    let (k1, k2) = (kind(&c.u1, deviant), kind(&c.u2, deviant));
    let unknown_mix = match (&k1, &k2) {
        (Kind::Unknown(a), Kind::Unknown(b)) => a != b,
        (Kind::Unknown(_), Kind::Known(..)) | (Kind::Known(..), Kind::Unknown(_)) => true,
        _ => false,
    };
    // m2 expressed in u1 (None when not convertible)
    let m2_in_u1: Option<f64> = if c.u1 == c.u2 {
        Some(m2)
    } else {
        match (&k1, &k2) {
            (Kind::Known(d1, f1), Kind::Known(d2, f2)) if d1 == d2 => Some(m2 * f2 / f1),
            _ => None,
        }
    };
    let incompatible_known = matches!((&k1, &k2), (Kind::Known(d1, _), Kind::Known(d2, _)) if d1 != d2);
    match c.op.as_str() {
        "+" | "-" => {
            let f = |a: f64, b: f64| if c.op == "+" { a + b } else { a - b };
            if k1 == Kind::Unitless {
                Expect::Num(f(m1, m2), c.u2.clone())
            } else if k2 == Kind::Unitless {
                Expect::Num(f(m1, m2), c.u1.clone())
            } else if let Some(b) = m2_in_u1 {
                Expect::Num(f(m1, b), c.u1.clone())
            } else if incompatible_known {
                Expect::Error
            } else {
                Expect::NotJudged
            }
        }
        "<" | "<=" | ">" | ">=" => {
            let b = if k1 == Kind::Unitless || k2 == Kind::Unitless { Some(m2) } else { m2_in_u1 };
            match b {
                Some(b) => {
                    if m1 != b && close(m1, b) {
                        return Expect::NotJudged;
                    }
                    Expect::Bool(match c.op.as_str() {
                        "<" => m1 < b,
                        "<=" => m1 <= b,
                        ">" => m1 > b,
                        _ => m1 >= b,
                    })
                }
                None if incompatible_known => Expect::Error,
                None => Expect::NotJudged,
            }
        }
        "==" => {
            if (k1 == Kind::Unitless) != (k2 == Kind::Unitless) {
                return Expect::NotJudged;
            }
            match m2_in_u1 {
                Some(b) => {
                    if m1 != b && close(m1, b) {
                        Expect::NotJudged
                    } else {
                        Expect::Bool(m1 == b)
                    }
                }
                None if k1 == Kind::Unitless && k2 == Kind::Unitless => Expect::Bool(m1 == m2),
                None if unknown_mix => Expect::NotJudged,
                None => Expect::NotTrue,
            }
        }
        "*" | "div" => {
            if unknown_mix {
                return Expect::NotJudged;
            }
            let (a, da) = quantity(m1, &c.u1, deviant);
            let (b, db) = quantity(m2, &c.u2, deviant);
            if c.op == "div" && m2 == 0.0 {
                return Expect::NotJudged;
            }
            let mut d = da;
            let s = if c.op == "*" { 1 } else { -1 };
            for (k, e) in db {
                *d.entry(k).or_default() += s * e;
            }
            d.retain(|_, e| *e != 0);
            Expect::Quantity(if c.op == "*" { a * b } else { a / b }, d)
        }
        _ => Expect::NotJudged,
    }
}

fn agrees(e: &Expect, got: &Result<String, Res>, deviant: bool) -> bool {
    match (e, got) {
        (Expect::NotJudged, _) => true,
        (Expect::Error, Err(r)) => r.is_err(),
        (Expect::Error, Ok(_)) => false,
        (_, Err(_)) => false,
        (Expect::Num(v, u), Ok(t)) => split_num(t).is_some_and(|(gv, gu)| gu == *u && (close(gv, *v) || (gv - *v).abs() <= 0.6e-10)),
        (Expect::Bool(b), Ok(t)) => t == if *b { "true" } else { "false" },
        (Expect::NotTrue, Ok(t)) => t != "true",
        (Expect::Quantity(m, d), Ok(t)) => parse_quantity(t, deviant).is_some_and(|((gm, gd), rel)| gd == *d && (close(gm, *m) || (gm - *m).abs() <= (1e-9 + rel) * m.abs())),
    }
}

pub fn expr(c: &Case) -> String {
    if c.op == "div" {
        format!("math.div({}{}, {}{})", c.m1, c.u1, c.m2, c.u2)
    } else {
        format!("{}{} {} {}{}", c.m1, c.u1, c.op, c.m2, c.u2)
    }
}

const OPS: &[&str] = &["+", "-", "<", "<=", ">", ">=", "==", "*", "div"];
const MAGS: &[(&str, &str)] = &[("1", "1"), ("2.5", "4"), ("96", "1"), ("-3", "0.75"), ("0", "7"), ("12", "12")];

fn all_cases() -> Vec<Case> {
    let mut units: Vec<&str> = vec![""];
    units.extend(KNOWN.iter().map(|(n, _, _)| *n));
    units.extend(UNKNOWN.iter());
    let mut v = vec![];
    for u1 in &units {
        for u2 in &units {
            for op in OPS {
                for (m1, m2) in MAGS {
                    v.push(Case { m1: m1.to_string(), u1: u1.to_string(), op: op.to_string(), m2: m2.to_string(), u2: u2.to_string() });
                }
            }
        }
    }
    v
}

impl Prop for C11 {
    type Case = Case;
    const ID: &'static str = "C11";
    fn new() -> Self {
        C11
    }
    fn rule(&self) -> String {
        "exhaustive: every ordered pair of {unitless, the 28 units rsass parses as known (px in cm mm q pt pc deg grad rad turn s ms Hz kHz dppx dpi dpcm em ex ch rem vw vh vmin vmax % fr), two unknown units} (31x31) x {+ - < <= > >= == * math.div} x 6 magnitude pairs (incl. 0, negative, non-integer, 96:1); one compile per expression, result read through inspect(). Oracle: reference table with the exact CSS ratios; products/quotients compared as base-unit quantities (dimension exponents + magnitude), so representation does not matter. Non-trivial: the two units differ; distinct by (pair, operator, magnitudes)".into()
    }
    fn assumptions(&self) -> Vec<String> {
        vec![
            "numeric tolerance 1e-9 relative; relational/equality results are not judged when the converted operands differ by less than that without being equal".into(),
            "`==` with exactly one unitless operand is not judged (the statement and Sass differ); unknown units are only judged against themselves and unitless".into(),
        ]
    }
    fn phases(&self, _tier: Tier) -> Vec<Phase<Case>> {
        vec![Phase::enumerate("all-pairs", all_cases().into_iter())]
    }
    fn check(&self, c: &Case) -> Verdict {
        // precision 15 so that small converted magnitudes keep their relative accuracy
        let got = match rs::probes_with("", &[format!("inspect({})", expr(c))], 15) {
            Ok(v) => match v.into_iter().next().flatten() {
                Some(t) => Ok(t),
                None => Err(Res::Err { kind: "frame", text: "inspect() printed nothing".into() }),
            },
            Err(r) => Err(r),
        };
        if let Err(Res::Panic(m)) = &got {
            return Verdict::fail(format!("{}: panic {m}", expr(c)));
        }
        let e = expect(c, false);
        let nontrivial = c.u1 != c.u2 && e != Expect::NotJudged;
        if agrees(&e, &got, false) {
            return Verdict::pass(nontrivial).class(format!("op {}", c.op)).class_if(e == Expect::NotJudged, "not-judged").class_if(e == Expect::Error, "error-required");
        }
        let shown = match &got {
            Ok(t) => format!("{t:?}"),
            Err(r) => r.brief(),
        };
        let msg = format!("{} gave {shown}, reference expects {e:?}", expr(c));
        // known deviations, each with its deviant model
        let dev = expect(c, true);
        let in_dev_group = |u: &str| DEVIANT.iter().any(|(n, _, _)| *n == u);
        if in_dev_group(&c.u1) && in_dev_group(&c.u2) && dev != e && agrees(&dev, &got, true) {
            return Verdict::known("C11-invented-unit-ratios", msg);
        }
        if e == Expect::Error {
            if let Ok(t) = &got {
                if matches!(c.op.as_str(), "+" | "-") && t.eq_ignore_ascii_case(&expr(c)) {
                    return Verdict::known("C11-incompatible-add-printed", msg);
                }
                if matches!(c.op.as_str(), "<" | "<=" | ">" | ">=") && t == "false" {
                    return Verdict::known("C11-incompatible-compare-false", msg);
                }
            }
        }
        Verdict::fail(msg)
    }
}
