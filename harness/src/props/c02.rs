//! C02 Module loading terminates; only real cycles are loop errors.

use crate::engine::{Phase, Prop, Tier, Verdict};
use crate::gen::graph::{self, Graph, Kind, Outcome, KINDS};
use crate::rs::{self, Opts, Res};
use proptest::prelude::*;
use serde::{Deserialize, Serialize};

pub struct C02;

#[derive(Clone, Debug, Serialize, Deserialize)]
pub struct Case {
    pub g: Graph,
}

fn has_repeat(g: &Graph) -> bool {
    let mut targets: Vec<usize> = g.files.iter().flatten().map(|l| l.target).collect();
    let n = targets.len();
    targets.sort();
    targets.dedup();
    targets.len() < n
}

impl Prop for C02 {
    type Case = Case;
    const ID: &'static str = "C02";
    const ISOLATED: bool = true;
    const TIMEOUT_MS: u64 = 20_000;
    fn new() -> Self {
        C02
    }
    fn rule(&self) -> String {
        "file sets {a, _b, _c(, _d)} with root a; each file is its load statements followed by a marker rule; a load is (kind in @use/@forward/@import/meta.load-css, target file incl. itself and the root, spelling in `t`, `./t`, `d/../t`, `d/./../t`, `_t`, `_t.scss`), every @use with its own namespace. Enumerated: all 3-file graphs with at most one load per file over spellings {t, ./t, d/../t} (quick) or all six (thorough); random graphs over 3-4 files with up to 3 loads per file. Run through an in-memory loader that resolves . and .. like a file system, in a worker process. Oracle: reference loader (loading stack over canonical identities + cache of finished modules): the worker must survive and return; no in-progress load in the model => not a loop error; the model's first failure is an in-progress load => Error::ImportLoop. Non-trivial: >= 2 load edges with a cycle, a diamond or a repeated load; distinct by graph".into()
    }
    fn assumptions(&self) -> Vec<String> {
        vec!["graphs whose model run exceeds 5000 loads (exponential @import fan-out) are not judged".into(), "a worker that dies (stack overflow) or exceeds 20 s counts as non-termination for the case that was running".into()]
    }
    fn phases(&self, tier: Tier) -> Vec<Phase<Case>> {
        let sp: &'static [usize] = tier.pick(&[0, 1, 2], &[0, 1, 2, 3, 4, 5]);
        vec![
            Phase::enumerate("3-files-1-load", graph::enumerate_one_load(3, KINDS, sp).into_iter().map(|g| Case { g })),
            Phase::random("random-3", graph::graphs(3, 3, KINDS).prop_map(|g| Case { g }), tier.pick(15_000, 1_500_000)),
            Phase::random("random-4", graph::graphs(4, 2, KINDS).prop_map(|g| Case { g }), tier.pick(10_000, 1_000_000)),
        ]
    }
    fn render(&self, c: &Case) -> serde_json::Value {
        serde_json::json!({"files": c.g.sources(), "model": format!("{:?}", graph::model(&c.g))})
    }
    fn on_worker_death(&self, c: &Case, why: &str) -> Verdict {
        let msg = format!("compilation did not terminate normally ({}); model: {:?}; files: {:?}", why.chars().take(160).collect::<String>(), graph::model(&c.g), c.g.sources());
        if why.contains("stack overflow") && c.g.files.iter().flatten().any(|l| l.spelling % graph::N_SPELLINGS != 0) {
            return Verdict::known("C02-url-spelling-defeats-loop-check", msg);
        }
        Verdict::fail(msg)
    }
    fn check(&self, c: &Case) -> Verdict {
        let want = graph::model(&c.g);
        if want == Outcome::TooLarge {
            return Verdict::discard("domain: model run too large");
        }
        let files = c.g.sources();
        let r = rs::compile_files(&files, "a.scss", &Opts::default());
        let nontrivial = c.g.edges() >= 2 && (want == Outcome::Loop || has_repeat(&c.g));
        let odd_spelling = c.g.files.iter().flatten().any(|l| l.spelling % graph::N_SPELLINGS != 0);
        let has_loadcss = c.g.files.iter().flatten().any(|l| l.kind == Kind::LoadCss);
        let verdict = |msg: String| {
            if odd_spelling {
                Verdict::known("C02-url-spelling-defeats-loop-check", msg)
            } else if has_loadcss {
                Verdict::known("C02-load-css-unlocks-early", msg)
            } else {
                Verdict::fail(msg)
            }
        };
        // a loop error: Error::ImportLoop, or that error wrapped by a mixin call (load-css) keeping its message
        let is_loop = |r: &Res| matches!(r, Res::Err { kind, text } if *kind == "ImportLoop" || text.contains("already being loaded"));
        match (&want, &r) {
            (_, Res::Panic(m)) => Verdict::fail(format!("panic: {m}; files: {files:?}")),
            (Outcome::Loop, r) if is_loop(r) => Verdict::pass(nontrivial).class("loop-reported"),
            (Outcome::Loop, other) => verdict(format!("the files form a loop (a file is loaded while it is being loaded) but the result is {}; files: {files:?}", other.brief().chars().take(200).collect::<String>())),
            (Outcome::Done(_), r) if is_loop(r) => verdict(format!("loop error on an acyclic file set: {}; files: {files:?}", r.brief().chars().take(160).collect::<String>())),
            (Outcome::Done(_), _) => Verdict::pass(nontrivial).class(if r.is_ok() { "acyclic-ok" } else { "acyclic-other-error" }),
            (Outcome::TooLarge, _) => Verdict::pass(false),
        }
    }
}
