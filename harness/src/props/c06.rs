//! C06 unique-id() is unique and random() stays in range.

use crate::engine::{Phase, Prop, Tier, Verdict};
use crate::rs::{self, Opts, Res};
use proptest::prelude::*;
use serde::{Deserialize, Serialize};
use std::collections::HashSet;
use std::sync::{Arc, Barrier, Mutex, OnceLock};

pub struct C06;

#[derive(Clone, Debug, Serialize, Deserialize)]
pub enum Case {
    /// `threads` compilations started together, each calling unique-id() `calls` times
    Ids { threads: usize, calls: usize, module_form: bool },
    /// `calls` calls of random($limit) (limit None = random())
    Random { limit: Option<u64>, calls: usize, module_form: bool },
}

/// every id seen in this process
fn seen() -> &'static Mutex<HashSet<String>> {
    static S: OnceLock<Mutex<HashSet<String>>> = OnceLock::new();
    S.get_or_init(|| Mutex::new(HashSet::new()))
}

fn is_css_ident(s: &str) -> bool {
    let mut cs = s.chars();
    let Some(f) = cs.next() else { return false };
    let start_ok = |c: char| c.is_ascii_alphabetic() || c == '_' || !c.is_ascii();
    let rest_ok = |c: char| start_ok(c) || c.is_ascii_digit() || c == '-';
    if f == '-' {
        match cs.next() {
            Some(c) if start_ok(c) || c == '-' => {}
            _ => return false,
        }
    } else if !start_ok(f) {
        return false;
    }
    cs.all(rest_ok)
}

fn values_of(out: &str) -> Vec<String> {
    out.lines().filter_map(|l| l.trim().strip_prefix("y: ").map(|v| v.trim_end_matches(';').to_string())).collect()
}

fn ids_program(calls: usize, module_form: bool) -> String {
    let f = if module_form { "string.unique-id()" } else { "unique-id()" };
    format!("@use \"sass:string\";\n@for $i from 1 through {calls} {{ x {{ y: {f} }} }}\n")
}

impl Prop for C06 {
    type Case = Case;
    const ID: &'static str = "C06";
    fn new() -> Self {
        C06
    }
    fn rule(&self) -> String {
        "cases: (a) 1..16 compilations released together by a barrier, each calling unique-id() / string.unique-id() 50..2000 times; all ids of the case and of every earlier case in the process (the 16 engine shards run such cases concurrently as well) must be pairwise distinct CSS identifiers; (b) 200 calls of random() (each must parse to x with 0 <= x < 1, read at precision 20) or random($limit) for limits 1, 2, 3, 10, 2^31-1, 2^31, 2^31+1, 2^32, 2^53-1, 2^53 and random limits in 1..2^53 (each must print as a plain integer n with 1 <= n <= limit, compared as u64). Non-trivial: an id case with >= 2 threads, a random case with limit >= 2^32 or no limit; distinct by case parameters".into()
    }
    fn assumptions(&self) -> Vec<String> {
        vec!["schedules are whatever the OS produces for up to 16x16 threads released by barriers; they are stressed, not enumerated".into(), "a replayed id case re-runs its threads, so a race reproduces only probabilistically".into()]
    }
    fn phases(&self, tier: Tier) -> Vec<Phase<Case>> {
        let ids = (1usize..=16, 50usize..1000, any::<bool>()).prop_map(|(threads, calls, module_form)| Case::Ids { threads, calls, module_form });
        let lim = prop_oneof![
            2 => Just(None),
            3 => proptest::sample::select(&[1u64, 2, 3, 10, (1 << 31) - 1, 1 << 31, (1 << 31) + 1, 1 << 32, (1 << 53) - 1, 1 << 53][..]).prop_map(Some),
            3 => (1u64..(1 << 53)).prop_map(Some),
            1 => (1u64..100).prop_map(Some),
        ];
        let rnd = (lim, any::<bool>()).prop_map(|(limit, module_form)| Case::Random { limit, calls: 200, module_form });
        vec![Phase::random("unique-id", ids, tier.pick(150, 20_000)), Phase::random("random", rnd, tier.pick(2_000, 200_000))]
    }
    fn check(&self, c: &Case) -> Verdict {
        match c {
            Case::Ids { threads, calls, module_form } => {
                let src = Arc::new(ids_program(*calls, *module_form));
                let barrier = Arc::new(Barrier::new(*threads));
                let hs: Vec<_> = (0..*threads)
                    .map(|_| {
                        let (src, barrier) = (src.clone(), barrier.clone());
                        std::thread::spawn(move || {
                            barrier.wait();
                            rs::compile(src.as_bytes(), &Opts::default())
                        })
                    })
                    .collect();
                let mut all: Vec<String> = vec![];
                for h in hs {
                    match h.join() {
                        Ok(Res::Ok(out)) => all.extend(values_of(&String::from_utf8_lossy(&out))),
                        Ok(r) => return Verdict::fail(format!("unique-id program failed: {}", r.brief())),
                        Err(_) => return Verdict::fail("thread panicked".to_string()),
                    }
                }
                if all.len() != threads * calls {
                    return Verdict::fail(format!("expected {} ids, got {}", threads * calls, all.len()));
                }
                if let Some(bad) = all.iter().find(|s| !is_css_ident(s)) {
                    return Verdict::fail(format!("unique-id() returned {bad:?}, which is not a CSS identifier"));
                }
                let mut g = seen().lock().unwrap();
                for id in all {
                    if !g.insert(id.clone()) {
                        return Verdict::fail(format!("unique-id() returned {id} twice in one process ({threads} concurrent compilations x {calls} calls)"));
                    }
                }
                Verdict::pass(*threads >= 2).class(if *threads >= 2 { "concurrent" } else { "single-thread" })
            }
            Case::Random { limit, calls, module_form } => {
                let f = if *module_form { "math.random" } else { "random" };
                let arg = limit.map(|l| l.to_string()).unwrap_or_default();
                let src = format!("@use \"sass:math\";\n@for $i from 1 through {calls} {{ x {{ y: {f}({arg}) }} }}\n");
                let out = match rs::compile(src.as_bytes(), &Opts { precision: 20, ..Opts::default() }) {
                    Res::Ok(o) => String::from_utf8_lossy(&o).to_string(),
                    r => return Verdict::fail(format!("{f}({arg}) failed: {}", r.brief())),
                };
                let vals = values_of(&out);
                if vals.len() != *calls {
                    return Verdict::fail(format!("expected {calls} values, got {}", vals.len()));
                }
                for v in &vals {
                    match limit {
                        None => match v.parse::<f64>() {
                            Ok(x) if (0.0..1.0).contains(&x) && !v.contains('e') => {}
                            _ => return Verdict::fail(format!("{f}() returned {v}, not a number in [0, 1)")),
                        },
                        Some(l) => match v.parse::<u64>() {
                            Ok(n) if n >= 1 && n <= *l => {}
                            _ => return Verdict::fail(format!("{f}({l}) returned {v}, not an integer in [1, {l}]")),
                        },
                    }
                }
                let big = limit.is_none_or(|l| l >= 1 << 32);
                Verdict::pass(big).class(if limit.is_none() { "unit-interval" } else if big { "limit>=2^32" } else { "small-limit" })
            }
        }
    }
}
