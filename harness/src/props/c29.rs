//! C29 Math functions compute the specified values.

use crate::engine::{Phase, Prop, Tier, Verdict};
use crate::rs::{self, Res};
use proptest::prelude::*;
use serde::{Deserialize, Serialize};

pub struct C29;

#[derive(Clone, Debug, Serialize, Deserialize)]
pub struct Arg {
    /// numeric text (or `inf`, `-inf`, `nan`)
    pub v: String,
    pub u: String,
}

#[derive(Clone, Debug, Serialize, Deserialize)]
pub struct Case {
    pub f: String,
    pub args: Vec<Arg>,
}

fn val(a: &Arg) -> f64 {
    match a.v.as_str() {
        "inf" => f64::INFINITY,
        "-inf" => f64::NEG_INFINITY,
        "nan" => f64::NAN,
        t => t.parse().unwrap_or(0.0),
    }
}

fn src(a: &Arg) -> String {
    let unit_mul = if a.u.is_empty() { String::new() } else { format!(" * 1{}", a.u) };
    match a.v.as_str() {
        "inf" => format!("(math.div(1, 0){unit_mul})"),
        "-inf" => format!("(math.div(-1, 0){unit_mul})"),
        "nan" => format!("(math.div(0, 0){unit_mul})"),
        t => format!("{t}{}", a.u),
    }
}

/// (dimension, factor to base)
fn unit(u: &str) -> Option<(&'static str, f64)> {
    Some(match u {
        "" => ("", 1.0),
        "px" => ("len", 1.0),
        "in" => ("len", 96.0),
        "pt" => ("len", 96.0 / 72.0),
        "cm" => ("len", 96.0 / 2.54),
        "deg" => ("angle", 1.0),
        "grad" => ("angle", 0.9),
        "rad" => ("angle", 180.0 / std::f64::consts::PI),
        "turn" => ("angle", 360.0),
        "s" => ("time", 1.0),
        "ms" => ("time", 0.001),
        "%" => ("%", 1.0),
        "em" => ("em", 1.0),
        _ => return None,
    })
}

#[derive(Debug, Clone, PartialEq)]
enum Expect {
    Error,
    /// value with unit
    Num(f64, String),
    /// equal to one of these arguments (indices)
    OneOf(Vec<usize>),
    NotJudged,
}

fn round_away(x: f64) -> f64 {
    x.round()
}

fn expect(c: &Case) -> Expect {
    let a = &c.args;
    let v: Vec<f64> = a.iter().map(val).collect();
    let unitless = |i: usize| a[i].u.is_empty();
    match c.f.as_str() {
        "abs" => Expect::Num(v[0].abs(), a[0].u.clone()),
        "ceil" => Expect::Num(v[0].ceil(), a[0].u.clone()),
        "floor" => Expect::Num(v[0].floor(), a[0].u.clone()),
        "round" => Expect::Num(round_away(v[0]), a[0].u.clone()),
        "percentage" => if unitless(0) { Expect::Num(v[0] * 100.0, "%".into()) } else { Expect::Error },
        "min" | "max" | "clamp" => {
            // convert to the base unit of the first argument's dimension
            let dims: Vec<Option<(&str, f64)>> = a.iter().map(|x| unit(&x.u)).collect();
            if dims.iter().any(|d| d.is_none()) {
                return Expect::NotJudged;
            }
            let dims: Vec<(&str, f64)> = dims.into_iter().map(|d| d.unwrap()).collect();
            let with_unit: Vec<&(&str, f64)> = dims.iter().filter(|d| !d.0.is_empty()).collect();
            if v.iter().any(|x| x.is_nan()) {
                return Expect::NotJudged;
            }
            if !with_unit.is_empty() && with_unit.len() != dims.len() {
                // mixing unitless and unit numbers is not judged
                return Expect::NotJudged;
            }
            if with_unit.iter().any(|d| d.0 != with_unit[0].0) {
                // `%` and `em` against an absolute unit may be resolvable in CSS (min(0%, 0px) is valid CSS): not judged
                return if with_unit.iter().any(|d| d.0 == "%" || d.0 == "em") { Expect::NotJudged } else { Expect::Error };
            }
            if !with_unit.is_empty() && with_unit.len() != dims.len() {
                // mixing unitless and unit numbers: Sass allows it for min/max (deprecated in places); not judged
                return Expect::NotJudged;
            }
            let base: Vec<f64> = v.iter().zip(dims.iter()).map(|(x, d)| x * d.1).collect();
            if base.iter().any(|x| x.is_nan()) {
                return Expect::NotJudged;
            }
            let close = |x: f64, y: f64| (x - y).abs() <= 1e-9 * x.abs().max(y.abs()) || x == y;
            if c.f == "clamp" {
                let (lo, x, hi) = (base[0], base[1], base[2]);
                // (with min > max: max(min, min(x, max)) = min, as CSS defines clamp and as math.clamp is specified)
                let r = lo.max(x.min(hi));
                return Expect::OneOf((0..3).filter(|i| close(base[*i], r)).collect());
            }
            let best = if c.f == "min" { base.iter().cloned().fold(f64::INFINITY, f64::min) } else { base.iter().cloned().fold(f64::NEG_INFINITY, f64::max) };
            Expect::OneOf((0..base.len()).filter(|i| close(base[*i], best)).collect())
        }
        "pow" => if unitless(0) && unitless(1) { Expect::Num(v[0].powf(v[1]), String::new()) } else { Expect::Error },
        "sqrt" => if unitless(0) { Expect::Num(v[0].sqrt(), String::new()) } else { Expect::Error },
        "exp" => if unitless(0) { Expect::Num(v[0].exp(), String::new()) } else { Expect::Error },
        "log" => {
            if a.iter().any(|x| !x.u.is_empty()) {
                return Expect::Error;
            }
            Expect::Num(if a.len() == 2 { v[0].ln() / v[1].ln() } else { v[0].ln() }, String::new())
        }
        "sin" | "cos" | "tan" => {
            let rad = match a[0].u.as_str() {
                "" | "rad" => v[0],
                u => match unit(u) {
                    Some(("angle", f)) => v[0] * f * std::f64::consts::PI / 180.0,
                    _ => return Expect::Error,
                },
            };
            // results near the poles of tan or for huge angles are numerically meaningless
            if rad.abs() > 1e6 {
                return Expect::NotJudged;
            }
            let r = match c.f.as_str() {
                "sin" => rad.sin(),
                "cos" => rad.cos(),
                _ => {
                    if rad.cos().abs() < 1e-6 {
                        return Expect::NotJudged;
                    }
                    rad.tan()
                }
            };
            Expect::Num(r, String::new())
        }
        "asin" | "acos" | "atan" => {
            if !unitless(0) {
                return Expect::Error;
            }
            let r = match c.f.as_str() {
                "asin" => v[0].asin(),
                "acos" => v[0].acos(),
                _ => v[0].atan(),
            };
            Expect::Num(r.to_degrees(), "deg".into())
        }
        "atan2" => {
            match (unit(&a[0].u), unit(&a[1].u)) {
                (Some((d0, f0)), Some((d1, f1))) if d0 == d1 => Expect::Num((v[0] * f0).atan2(v[1] * f1).to_degrees(), "deg".into()),
                (Some(_), Some(_)) if a[0].u.is_empty() != a[1].u.is_empty() => Expect::NotJudged,
                (Some(_), Some(_)) => Expect::Error,
                _ => Expect::NotJudged,
            }
        }
        "hypot" => {
            let dims: Vec<Option<(&str, f64)>> = a.iter().map(|x| unit(&x.u)).collect();
            if dims.iter().any(|d| d.is_none()) {
                return Expect::NotJudged;
            }
            let dims: Vec<(&str, f64)> = dims.into_iter().map(|d| d.unwrap()).collect();
            if dims.iter().any(|d| d.0 != dims[0].0) {
                return if dims.iter().any(|d| d.0.is_empty()) { Expect::NotJudged } else { Expect::Error };
            }
            let f0 = dims[0].1;
            // squares of such magnitudes overflow a double; the naive formula (also dart-sass's) gives infinity
            if v.iter().any(|x| !x.is_finite() || x.abs() > 1e150 || (*x != 0.0 && x.abs() < 1e-150)) {
                return Expect::NotJudged;
            }
            let h: f64 = v.iter().zip(dims.iter()).map(|(x, d)| x * d.1 / f0).fold(0.0, |a: f64, x| a.hypot(x));
            Expect::Num(h, a[0].u.clone())
        }
        "div" => {
            match (unit(&a[0].u), unit(&a[1].u)) {
                (Some((d0, f0)), Some((d1, f1))) if d0 == d1 => Expect::Num(v[0] * f0 / (v[1] * f1), String::new()),
                (Some(_), Some(("", _))) => Expect::Num(v[0] / v[1], a[0].u.clone()),
                _ => Expect::NotJudged,
            }
        }
        _ => Expect::NotJudged,
    }
}

/// parse `12.5px`, `calc(infinity)`, `calc(NaN * 1deg)`, `calc(-infinity * 1px)`
fn parse_num(t: &str) -> Option<(f64, String)> {
    if let Some(inner) = t.strip_prefix("calc(").and_then(|s| s.strip_suffix(')')) {
        let (head, unit) = match inner.split_once(" * 1") {
            Some((h, u)) => (h, u.to_string()),
            None => (inner, String::new()),
        };
        let v = match head {
            "infinity" => f64::INFINITY,
            "-infinity" => f64::NEG_INFINITY,
            "NaN" => f64::NAN,
            _ => return None,
        };
        return Some((v, unit));
    }
    let b = t.as_bytes();
    let mut end = 0;
    while end < b.len() && (b[end].is_ascii_digit() || b[end] == b'.' || (end == 0 && (b[end] == b'-' || b[end] == b'+'))) {
        end += 1;
    }
    if end < b.len() && (b[end] == b'e' || b[end] == b'E') {
        let mut k = end + 1;
        if k < b.len() && (b[k] == b'-' || b[k] == b'+') {
            k += 1;
        }
        if k < b.len() && b[k].is_ascii_digit() {
            while k < b.len() && b[k].is_ascii_digit() {
                k += 1;
            }
            end = k;
        }
    }
    let v: f64 = t[..end].parse().ok()?;
    Some((v, t[end..].to_string()))
}

fn number() -> BoxedStrategy<String> {
    prop_oneof![
        5 => (-2000i32..2000, 0u32..4).prop_map(|(n, d)| format!("{}", n as f64 / 10f64.powi(d as i32))),
        3 => prop_oneof![Just("0"), Just("0.5"), Just("-0.5"), Just("1.5"), Just("-1.5"), Just("2.5"), Just("-2.5"), Just("1"), Just("-1"), Just("2"), Just("10"), Just("0.25"), Just("100"), Just("1e-7"), Just("-0.0000001"), Just("123456789"), Just("0.9999999999"), Just("1.0000000001")].prop_map(|s| s.to_string()),
        1 => prop_oneof![Just("inf"), Just("-inf"), Just("nan"), Just("1e300"), Just("-1e300"), Just("1e-300"), Just("-0")].prop_map(|s| s.to_string()),
    ]
    .boxed()
}

fn cases() -> impl Strategy<Value = Case> {
    let units_any = proptest::sample::select(&["", "", "px", "in", "pt", "cm", "deg", "grad", "rad", "turn", "s", "ms", "%", "em"][..]);
    let arg = (number(), units_any.clone()).prop_map(|(v, u)| Arg { v, u: u.to_string() }).boxed();
    let len = proptest::sample::select(&["px", "in", "pt", "cm"][..]);
    let ang = proptest::sample::select(&["", "deg", "grad", "rad", "turn", "px", "s"][..]);
    prop_oneof![
        4 => (proptest::sample::select(&["abs", "ceil", "floor", "round"][..]), arg.clone()).prop_map(|(f, a)| Case { f: f.into(), args: vec![a] }),
        1 => arg.clone().prop_map(|a| Case { f: "percentage".into(), args: vec![a] }),
        // min/max: same dimension (lengths), mixed dimensions, unitless
        3 => (proptest::sample::select(&["min", "max"][..]), proptest::collection::vec((number(), len.clone()), 1..5)).prop_map(|(f, v)| Case { f: f.into(), args: v.into_iter().map(|(v, u)| Arg { v, u: u.into() }).collect() }),
        1 => (proptest::sample::select(&["min", "max"][..]), proptest::collection::vec(number(), 1..5)).prop_map(|(f, v)| Case { f: f.into(), args: v.into_iter().map(|v| Arg { v, u: String::new() }).collect() }),
        1 => (proptest::sample::select(&["min", "max"][..]), proptest::collection::vec(arg.clone(), 2..4)).prop_map(|(f, args)| Case { f: f.into(), args }),
        // bounds as drawn (min > max in half of the cases)
        1 => (number(), number(), number(), len.clone(), len.clone(), len.clone()).prop_map(|(a, b, c, u1, u2, u3)| Case { f: "clamp".into(), args: vec![Arg { v: a, u: u1.into() }, Arg { v: b, u: u2.into() }, Arg { v: c, u: u3.into() }] }),
        2 => (number(), number(), number(), len.clone(), len.clone(), len.clone()).prop_map(|(a, b, c, u1, u2, u3)| {
            let mut lo = a.clone();
            let mut hi = c.clone();
            if a.parse::<f64>().unwrap_or(0.0) * unit(u1).unwrap().1 > c.parse::<f64>().unwrap_or(0.0) * unit(u3).unwrap().1 {
                std::mem::swap(&mut lo, &mut hi);
                return Case { f: "clamp".into(), args: vec![Arg { v: lo, u: u3.into() }, Arg { v: b, u: u2.into() }, Arg { v: hi, u: u1.into() }] };
            }
            Case { f: "clamp".into(), args: vec![Arg { v: lo, u: u1.into() }, Arg { v: b, u: u2.into() }, Arg { v: hi, u: u3.into() }] }
        }),
        2 => (arg.clone(), arg.clone()).prop_map(|(a, b)| Case { f: "pow".into(), args: vec![a, b] }),
        2 => (number(), number()).prop_map(|(a, b)| Case { f: "pow".into(), args: vec![Arg { v: a, u: String::new() }, Arg { v: b, u: String::new() }] }),
        2 => (proptest::sample::select(&["sqrt", "exp"][..]), arg.clone()).prop_map(|(f, a)| Case { f: f.into(), args: vec![a] }),
        2 => (proptest::sample::select(&["sqrt", "exp", "log"][..]), number()).prop_map(|(f, v)| Case { f: f.into(), args: vec![Arg { v, u: String::new() }] }),
        1 => (number(), number()).prop_map(|(a, b)| Case { f: "log".into(), args: vec![Arg { v: a, u: String::new() }, Arg { v: b, u: String::new() }] }),
        4 => (proptest::sample::select(&["sin", "cos", "tan"][..]), number(), ang).prop_map(|(f, v, u)| Case { f: f.into(), args: vec![Arg { v, u: u.into() }] }),
        2 => (proptest::sample::select(&["asin", "acos", "atan"][..]), prop_oneof![(-1200i32..1200).prop_map(|n| format!("{}", n as f64 / 1000.0)), number()], proptest::sample::select(&["", "", "", "px", "deg"][..])).prop_map(|(f, v, u)| Case { f: f.into(), args: vec![Arg { v, u: u.into() }] }),
        1 => (number(), number(), len.clone(), len.clone()).prop_map(|(a, b, u1, u2)| Case { f: "atan2".into(), args: vec![Arg { v: a, u: u1.into() }, Arg { v: b, u: u2.into() }] }),
        1 => (proptest::collection::vec((number(), len.clone()), 1..4)).prop_map(|v| Case { f: "hypot".into(), args: v.into_iter().map(|(v, u)| Arg { v, u: u.into() }).collect() }),
        2 => (arg.clone(), arg).prop_map(|(a, b)| Case { f: "div".into(), args: vec![a, b] }),
    ]
}

/// every function on every combination of boundary values (unitless), exhaustively
fn grid() -> Vec<Case> {
    const B: &[&str] = &["0", "-0", "0.5", "-0.5", "1", "-1", "2", "-2", "1.5", "-1.5", "2.5", "-2.5", "10", "inf", "-inf", "nan", "1e300", "-1e300", "1e-300", "0.9999999999", "3"];
    let a = |v: &str| Arg { v: v.to_string(), u: String::new() };
    let mut out = vec![];
    for f in ["abs", "ceil", "floor", "round", "percentage", "sqrt", "exp", "log", "sin", "cos", "tan", "asin", "acos", "atan"] {
        for x in B {
            out.push(Case { f: f.into(), args: vec![a(x)] });
        }
    }
    for f in ["pow", "log", "atan2", "div", "hypot", "min", "max"] {
        for x in B {
            for y in B {
                out.push(Case { f: f.into(), args: vec![a(x), a(y)] });
            }
        }
    }
    out
}

impl Prop for C29 {
    type Case = Case;
    const ID: &'static str = "C29";
    fn new() -> Self {
        C29
    }
    fn rule(&self) -> String {
        "exhaustive grid of 21 boundary values (0, -0, +-0.5, +-1, +-1.5, +-2, +-2.5, 3, 10, +-infinity, NaN, +-1e300, 1e-300, 0.9999999999) through every unary function and every pair through pow/log/atan2/div/hypot/min/max; random calls of math.abs/ceil/floor/round/percentage/div/min/max/clamp/pow/sqrt/log/exp/sin/cos/tan/asin/acos/atan/atan2/hypot with random decimals, ties (+-0.5, +-1.5, +-2.5), 0, -0, values next to 1, 1e+-300, +-infinity and NaN, carrying no unit, the proper unit class (lengths px in pt cm, angles deg grad rad turn), convertible units, and improper or incompatible units. Oracle: f64 reference (round half away from zero; trig in radians after converting the angle; inverse trig in deg), compared at tolerance max(1e-9 relative, 2e-10 absolute) on the value printed by inspect() at precision 10; abs/ceil/floor/round/hypot keep the unit; min/max/clamp must return one of their arguments (the reference one after conversion, ties accepted; clamp with min > max gives min), and the global CSS-aware min()/max()/clamp() on the same numbers must pick the same argument; unit-carrying input to pow/sqrt/log/exp, non-angles to trig and incompatible units are errors. Non-trivial: an argument with a unit, a tie, or a non-finite value; distinct by call".into()
    }
    fn assumptions(&self) -> Vec<String> {
        vec!["not judged: min/max/hypot/atan2 mixing unitless and unit numbers, trig of |angle| > 1e6 rad and tan within 1e-6 of a pole, NaN among min/max/clamp arguments".into()]
    }
    fn phases(&self, tier: Tier) -> Vec<Phase<Case>> {
        vec![Phase::enumerate("boundary-grid", grid().into_iter()), Phase::random("calls", cases(), tier.pick(40_000, 2_000_000))]
    }
    fn render(&self, c: &Case) -> serde_json::Value {
        serde_json::json!({"call": format!("math.{}({})", c.f, c.args.iter().map(src).collect::<Vec<_>>().join(", ")), "expected": format!("{:?}", expect(c))})
    }
    fn check(&self, c: &Case) -> Verdict {
        let call = format!("math.{}({})", c.f, c.args.iter().map(src).collect::<Vec<_>>().join(", "));
        let want = expect(c);
        let nontrivial = c.args.iter().any(|a| !a.u.is_empty() || matches!(a.v.as_str(), "inf" | "-inf" | "nan") || a.v.ends_with(".5"));
        if want == Expect::NotJudged {
            // still must not panic
            return match rs::inspect(&call) {
                Err(Res::Panic(m)) => Verdict::fail(format!("{call}: panic {m}")),
                _ => Verdict::pass(false).class("not-judged"),
            };
        }
        let mut probes = vec![format!("inspect({call})")];
        if let Expect::OneOf(_) = want {
            for a in &c.args {
                probes.push(format!("{call} == {}", src(a)));
            }
        }
        let r = rs::probes(&probes);
        match (&want, r) {
            (_, Err(Res::Panic(m))) => Verdict::fail(format!("{call}: panic {m}")),
            (Expect::Error, Err(_)) => Verdict::pass(true).class("error-required").class(c.f.clone()),
            (Expect::Error, Ok(v)) => Verdict::fail(format!("{call} must be an error (unit not allowed / incompatible units) but gives {:?}", v[0])),
            (_, Err(e)) => Verdict::fail(format!("{call} should give {want:?} but fails: {}", e.brief().chars().take(150).collect::<String>())),
            (Expect::Num(x, u), Ok(v)) => {
                let t = v[0].clone().unwrap_or_default();
                let Some((g, gu)) = parse_num(&t) else { return Verdict::fail(format!("{call} printed {t:?}, not a number")) };
                let unit_ok = gu.eq_ignore_ascii_case(u) || (x.is_nan() || x.is_infinite()) && (gu.is_empty() || gu.eq_ignore_ascii_case(u));
                let val_ok = if x.is_nan() { g.is_nan() } else if x.is_infinite() { g == *x } else { (g - x).abs() <= 1e-9 * x.abs() + 2e-10 };
                if unit_ok && val_ok {
                    Verdict::pass(nontrivial).class(c.f.clone())
                } else {
                    Verdict::fail(format!("{call} printed {t}, the reference gives {x}{u}"))
                }
            }
            (Expect::OneOf(ix), Ok(v)) => {
                let hit: Vec<usize> = (0..c.args.len()).filter(|i| v.get(i + 1).and_then(|x| x.as_deref()) == Some("true")).collect();
                if hit.iter().any(|i| ix.contains(i)) {
                    // the global, CSS-aware clamp()/min()/max() on the same (compatible, plain) numbers must pick the same argument
                    let g = format!("{}({})", c.f, c.args.iter().map(src).collect::<Vec<_>>().join(", "));
                    let gp: Vec<String> = c.args.iter().map(|a| format!("{g} == {}", src(a))).collect();
                    match rs::probes(&gp) {
                        Err(Res::Panic(m)) => return Verdict::fail(format!("{g}: panic {m}")),
                        Err(e) => return Verdict::fail(format!("{g} fails where {call} works: {}", e.brief().chars().take(150).collect::<String>())),
                        Ok(gv) => {
                            let ghit: Vec<usize> = (0..c.args.len()).filter(|i| gv.get(*i).and_then(|x| x.as_deref()) == Some("true")).collect();
                            if !ghit.iter().any(|i| ix.contains(i)) {
                                return Verdict::fail(format!("global {g} equals arguments {ghit:?}, the reference allows {ix:?} (and {call} equals {hit:?})"));
                            }
                        }
                    }
                    Verdict::pass(nontrivial).class(c.f.clone())
                } else {
                    Verdict::fail(format!("{call} printed {:?}; it equals arguments {hit:?}, the reference allows {ix:?}", v[0]))
                }
            }
            (Expect::NotJudged, _) => Verdict::pass(false),
        }
    }
}
