//! C15 Operators follow Sass precedence and associativity.
//! Typed expression trees, printed with minimal parentheses, against a reference evaluator.

use crate::engine::{Phase, Prop, Tier, Verdict};
use crate::rs::{self, Res};
use proptest::prelude::*;
use serde::{Deserialize, Serialize};

pub struct C15;

#[derive(Clone, Debug, Serialize, Deserialize, PartialEq)]
pub enum T {
    Num(i32),
    Bool(bool),
    Neg(Box<T>),
    Not(Box<T>),
    Bin(String, Box<T>, Box<T>),
}

#[derive(Clone, Debug, Serialize, Deserialize)]
pub struct Case {
    pub tree: T,
}

#[derive(Clone, Debug, PartialEq)]
pub enum V {
    N(f64),
    B(bool),
}

fn level(op: &str) -> u8 {
    match op {
        "or" => 1,
        "and" => 2,
        "==" | "!=" => 3,
        "<" | "<=" | ">" | ">=" => 4,
        "+" | "-" => 5,
        "*" | "%" => 6,
        _ => 7,
    }
}

fn tree_level(t: &T) -> u8 {
    match t {
        T::Bin(op, ..) => level(op),
        _ => 7,
    }
}

/// print with only the parentheses the Sass grammar needs (all levels left-associative)
pub fn print(t: &T) -> String {
    match t {
        T::Num(n) => n.to_string(),
        T::Bool(b) => b.to_string(),
        T::Neg(x) => match **x {
            T::Num(n) if n >= 0 => format!("-{n}"),
            _ => format!("-({})", print(x)),
        },
        T::Not(x) => match **x {
            // (a stacked `not not x` needs no parentheses either)
            T::Num(_) | T::Bool(_) | T::Not(_) => format!("not {}", print(x)),
            _ => format!("not ({})", print(x)),
        },
        T::Bin(op, a, b) => {
            let l = level(op);
            let pa = if tree_level(a) < l { format!("({})", print(a)) } else { print(a) };
            let pb = if tree_level(b) <= l { format!("({})", print(b)) } else { print(b) };
            format!("{pa} {op} {pb}")
        }
    }
}

fn truthy(v: &V) -> bool {
    !matches!(v, V::B(false))
}

pub fn eval(t: &T) -> V {
    match t {
        T::Num(n) => V::N(*n as f64),
        T::Bool(b) => V::B(*b),
        T::Neg(x) => match eval(x) {
            V::N(n) => V::N(-n),
            v => v,
        },
        T::Not(x) => V::B(!truthy(&eval(x))),
        T::Bin(op, a, b) => {
            let va = eval(a);
            match op.as_str() {
                "and" => return if truthy(&va) { eval(b) } else { va },
                "or" => return if truthy(&va) { va } else { eval(b) },
                _ => {}
            }
            let vb = eval(b);
            match (op.as_str(), &va, &vb) {
                ("==", _, _) => V::B(sass_eq(&va, &vb)),
                ("!=", _, _) => V::B(!sass_eq(&va, &vb)),
                ("+", V::N(x), V::N(y)) => V::N(x + y),
                ("-", V::N(x), V::N(y)) => V::N(x - y),
                ("*", V::N(x), V::N(y)) => V::N(x * y),
                ("%", V::N(x), V::N(y)) => V::N(if *y == 0.0 { f64::NAN } else { x - y * (x / y).floor() }),
                ("<", V::N(x), V::N(y)) => V::B(x < y),
                ("<=", V::N(x), V::N(y)) => V::B(x <= y),
                (">", V::N(x), V::N(y)) => V::B(x > y),
                (">=", V::N(x), V::N(y)) => V::B(x >= y),
                _ => V::B(false), // never generated (typed trees)
            }
        }
    }
}

fn sass_eq(a: &V, b: &V) -> bool {
    match (a, b) {
        (V::N(x), V::N(y)) => x == y,
        (V::B(x), V::B(y)) => x == y,
        _ => false,
    }
}

fn show(v: &V) -> String {
    match v {
        V::B(b) => b.to_string(),
        V::N(n) if n.is_nan() => "calc(NaN)".into(),
        V::N(n) => {
            if *n == 0.0 {
                "0".into()
            } else {
                format!("{n}")
            }
        }
    }
}

const NUM_OPS: &[&str] = &["*", "%", "+", "-"];
const REL_OPS: &[&str] = &["<", "<=", ">", ">="];
const EQ_OPS: &[&str] = &["==", "!="];
const LOGIC: &[&str] = &["and", "or"];
const NUMS: &[i32] = &[1, 2, 3, 5];

/// all numeric trees with exactly `n` binary operators (unary minus on leaves and on one compound form)
fn num_trees(n: usize, ops: &[&'static str]) -> Vec<T> {
    if n == 0 {
        let mut v: Vec<T> = NUMS.iter().map(|k| T::Num(*k)).collect();
        v.push(T::Neg(Box::new(T::Num(2))));
        return v;
    }
    let mut out = vec![];
    for k in 0..n {
        let ls = num_trees(k, ops);
        let rs = num_trees(n - 1 - k, ops);
        for op in ops {
            for a in &ls {
                for b in &rs {
                    out.push(T::Bin(op.to_string(), Box::new(a.clone()), Box::new(b.clone())));
                }
            }
        }
    }
    if n == 1 {
        let extra: Vec<T> = out.iter().step_by(7).map(|t| T::Neg(Box::new(t.clone()))).collect();
        out.extend(extra);
    }
    out
}

/// all trees of any type with exactly `n` binary operators, leaves thinned to keep the space enumerable
fn any_trees(n: usize, num_ops: &[&'static str], rel: &[&'static str], eqs: &[&'static str], logic: &[&'static str], leaves: &[T]) -> Vec<T> {
    if n == 0 {
        return leaves.to_vec();
    }
    let mut out = vec![];
    for k in 0..n {
        let nl = num_trees_small(k, num_ops, leaves);
        let nr = num_trees_small(n - 1 - k, num_ops, leaves);
        for op in num_ops.iter().chain(rel.iter()) {
            for a in &nl {
                for b in &nr {
                    out.push(T::Bin(op.to_string(), Box::new(a.clone()), Box::new(b.clone())));
                }
            }
        }
        let al = any_trees(k, num_ops, rel, eqs, logic, leaves);
        let ar = any_trees(n - 1 - k, num_ops, rel, eqs, logic, leaves);
        for op in eqs.iter().chain(logic.iter()) {
            for a in &al {
                for b in &ar {
                    out.push(T::Bin(op.to_string(), Box::new(a.clone()), Box::new(b.clone())));
                }
            }
        }
    }
    out
}

fn num_trees_small(n: usize, ops: &[&'static str], leaves: &[T]) -> Vec<T> {
    if n == 0 {
        return leaves.iter().filter(|t| matches!(t, T::Num(_))).cloned().collect();
    }
    let mut out = vec![];
    for k in 0..n {
        for op in ops {
            for a in num_trees_small(k, ops, leaves) {
                for b in num_trees_small(n - 1 - k, ops, leaves) {
                    out.push(T::Bin(op.to_string(), Box::new(a.clone()), Box::new(b.clone())));
                }
            }
        }
    }
    out
}

fn enumerated(tier: Tier) -> Vec<Case> {
    let leaves2 = vec![T::Num(1), T::Num(2), T::Num(3), T::Num(5), T::Bool(true), T::Bool(false)];
    let leaves3 = vec![T::Num(1), T::Num(2), T::Num(5), T::Bool(true), T::Bool(false)];
    let leaves4 = vec![T::Num(2), T::Num(3), T::Bool(true), T::Bool(false)];
    let mut v = vec![];
    for n in 1..=2 {
        v.extend(any_trees(n, NUM_OPS, REL_OPS, EQ_OPS, LOGIC, &leaves2));
        v.extend(num_trees(n, NUM_OPS));
    }
    // three operators: full operator set over a thinner leaf set (quick: one representative per level)
    match tier {
        Tier::Quick => v.extend(any_trees(3, &["*", "+"], &["<"], &["=="], LOGIC, &leaves4)),
        Tier::Thorough => {
            v.extend(any_trees(3, NUM_OPS, REL_OPS, EQ_OPS, LOGIC, &leaves3));
            v.extend(any_trees(4, &["*", "+"], &["<"], &["=="], LOGIC, &leaves4));
        }
    }
    v.into_iter().map(|tree| Case { tree }).collect()
}

fn random_trees() -> impl Strategy<Value = Case> {
    let num_leaf = prop_oneof![proptest::sample::select(NUMS).prop_map(T::Num), Just(T::Neg(Box::new(T::Num(3))))];
    let num = num_leaf.prop_recursive(4, 12, 2, |inner| {
        prop_oneof![
            6 => (proptest::sample::select(NUM_OPS), inner.clone(), inner.clone()).prop_map(|(op, a, b)| T::Bin(op.to_string(), Box::new(a), Box::new(b))),
            1 => inner.clone().prop_map(|a| T::Neg(Box::new(a))),
        ]
    });
    let leaf = prop_oneof![3 => num.clone(), 1 => any::<bool>().prop_map(T::Bool), 3 => (proptest::sample::select(REL_OPS), num.clone(), num).prop_map(|(op, a, b)| T::Bin(op.to_string(), Box::new(a), Box::new(b)))];
    leaf.prop_recursive(4, 12, 2, |inner| {
        prop_oneof![
            3 => (proptest::sample::select(EQ_OPS), inner.clone(), inner.clone()).prop_map(|(op, a, b)| T::Bin(op.to_string(), Box::new(a), Box::new(b))),
            4 => (proptest::sample::select(LOGIC), inner.clone(), inner.clone()).prop_map(|(op, a, b)| T::Bin(op.to_string(), Box::new(a), Box::new(b))),
            1 => inner.clone().prop_map(|a| T::Not(Box::new(a))),
        ]
    })
    .prop_map(|tree| Case { tree })
}

fn ops_of(t: &T, out: &mut Vec<String>) {
    match t {
        T::Bin(op, a, b) => {
            out.push(op.clone());
            ops_of(a, out);
            ops_of(b, out);
        }
        T::Neg(x) | T::Not(x) => ops_of(x, out),
        _ => {}
    }
}

impl Prop for C15 {
    type Case = Case;
    const ID: &'static str = "C15";
    fn new() -> Self {
        C15
    }
    fn rule(&self) -> String {
        "typed expression trees over operands {1,2,3,5,true,false}: numeric sub-trees under * % + - and unary minus, relational operators over numbers, == != and not/and/or over anything. Enumerated: every tree with 1 and 2 binary operators over the full operator set; 3 operators over one operator per precedence level (quick) or the full set plus 4 operators over one per level (thorough); plus random trees up to depth 4+4. Each tree is printed with binary operators spaced, unary minus attached and only the parentheses the Sass grammar (or < and < equality < relational < additive < multiplicative < unary, all left-associative) requires, compiled through inspect(), and compared with a reference evaluator on the tree (floored modulo, Sass equality). Non-trivial: at least two binary operators; distinct by tree".into()
    }
    fn assumptions(&self) -> Vec<String> {
        vec!["`/` is not generated (slash-separated values have their own rules); x % 0 is NaN as in Sass".into()]
    }
    fn phases(&self, tier: Tier) -> Vec<Phase<Case>> {
        vec![Phase::enumerate("enumerated", enumerated(tier).into_iter()), Phase::random("random", random_trees(), tier.pick(20_000, 2_000_000))]
    }
    fn render(&self, c: &Case) -> serde_json::Value {
        serde_json::json!({"expr": print(&c.tree), "expected": show(&eval(&c.tree))})
    }
    fn check(&self, c: &Case) -> Verdict {
        let text = print(&c.tree);
        let want = show(&eval(&c.tree));
        let mut ops = vec![];
        ops_of(&c.tree, &mut ops);
        let got = match rs::inspect(&text) {
            Ok(s) => s,
            Err(Res::Panic(m)) => return Verdict::fail(format!("`{text}`: panic {m}")),
            Err(e) => return Verdict::fail(format!("`{text}` should be {want} but fails: {}", e.brief().chars().take(120).collect::<String>())),
        };
        let mut levels: Vec<u8> = ops.iter().map(|o| level(o)).collect();
        levels.sort();
        levels.dedup();
        if got == want {
            Verdict::pass(ops.len() >= 2).class(format!("{} binary operators", ops.len().min(5))).class_if(levels.len() >= 2, "mixed-levels")
        } else {
            Verdict::fail(format!("`{text}` evaluates to {got}, the Sass grammar gives {want}"))
        }
    }
}
