//! C08 Expanded and compressed styles describe the same stylesheet.

use super::c07::{check_case as _unused, style_phases, Case};
use crate::csscolor;
use crate::cssread::{self, Tok};
use crate::engine::{Phase, Prop, Tier, Verdict};
use crate::rs::{self, Opts, Res, St};

pub struct C08;

#[derive(Clone, Debug)]
pub enum N {
    T(String),
    Num(String, String),
    Color([f64; 4]),
    Ws,
}

fn eq(a: &N, b: &N) -> bool {
    match (a, b) {
        (N::T(x), N::T(y)) => x == y,
        (N::Num(x, u), N::Num(y, v)) => x == y && u.eq_ignore_ascii_case(v),
        (N::Ws, N::Ws) => true,
        // hex notation rounds channels to integers: half a unit per channel, 0.002 on alpha (hex alpha has 1/255 steps)
        (N::Color(x), N::Color(y)) => (0..3).all(|i| (x[i] - y[i]).abs() <= 0.5 + 1e-6) && (x[3] - y[3]).abs() <= 0.0021,
        _ => false,
    }
}

fn canon_num(n: &str) -> String {
    // only the leading zero may differ
    let (sign, rest) = match n.strip_prefix('-') {
        Some(r) => ("-", r),
        None => ("", n.strip_prefix('+').unwrap_or(n)),
    };
    if rest.starts_with('.') {
        format!("{sign}0{rest}")
    } else {
        format!("{sign}{rest}")
    }
}

fn num_val(t: &Tok) -> Option<(f64, String)> {
    match t {
        Tok::Num(n, u) => n.parse::<f64>().ok().map(|v| (v, u.clone())),
        _ => None,
    }
}

/// try to read `rgb( … )`, `rgba( … )`, `hsl( … )`, `hsla( … )` with plain numeric arguments starting at toks[i] (a Function token)
fn color_fn(toks: &[Tok], i: usize) -> Option<([f64; 4], usize)> {
    let Tok::Function(name) = &toks[i] else { return None };
    // (`-rgb(0, 0, 0)` is what a unary minus in front of a colour prints; the other style prints `-#000`)
    let name = name.to_ascii_lowercase();
    let name = name.strip_prefix('-').unwrap_or(&name).to_string();
    if !matches!(name.as_str(), "rgb" | "rgba" | "hsl" | "hsla") {
        return None;
    }
    let mut args = vec![];
    let mut j = i + 1;
    loop {
        match toks.get(j)? {
            Tok::Ws | Tok::Comma => j += 1,
            Tok::Delim('/') => j += 1,
            Tok::Close(')') => {
                j += 1;
                break;
            }
            t => {
                args.push(num_val(t)?);
                j += 1;
            }
        }
    }
    if args.len() != 3 && args.len() != 4 {
        return None;
    }
    let alpha = match args.get(3) {
        None => 1.0,
        Some((v, u)) if u == "%" => v / 100.0,
        Some((v, u)) if u.is_empty() => *v,
        _ => return None,
    };
    let chan = |(v, u): &(f64, String)| -> Option<f64> {
        match u.as_str() {
            "" => Some(*v),
            "%" => Some(v * 2.55),
            _ => None,
        }
    };
    let rgb = if name.starts_with("rgb") {
        [chan(&args[0])?, chan(&args[1])?, chan(&args[2])?]
    } else {
        let h = match args[0].1.as_str() {
            "" | "deg" => args[0].0,
            _ => return None,
        };
        if args[1].1 != "%" || args[2].1 != "%" {
            return None;
        }
        csscolor::hsl_to_rgb(h, args[1].0 / 100.0, args[2].0 / 100.0)
    };
    Some(([rgb[0].clamp(0.0, 255.0), rgb[1].clamp(0.0, 255.0), rgb[2].clamp(0.0, 255.0), alpha.clamp(0.0, 1.0)], j))
}

const TIGHT: &[char] = &['{', '}', ';', ':', ',', '>', '+', '~', '(', ')', '[', ']', '/', '!', '='];

pub fn normalise(text: &str) -> Vec<N> {
    let toks = cssread::tokenize(cssread::strip_marker(text));
    let mut out: Vec<N> = vec![];
    let mut i = 0;
    while i < toks.len() {
        let t = &toks[i];
        match t {
            Tok::Comment(_) => {
                // a comment separates tokens like whitespace does
                out.push(N::Ws);
            }
            Tok::Ws => out.push(N::Ws),
            Tok::Num(n, u) => {
                // a sign is split off, so `.c+1` and `.c + 1` read alike
                if let Some(c) = n.chars().next().filter(|c| *c == '+' || *c == '-') {
                    out.push(N::T(c.to_string()));
                }
                out.push(N::Num(canon_num(n.trim_start_matches(['+', '-'])), u.clone()))
            }
            Tok::Hash(h) => match csscolor::hex(h) {
                Some(c) => out.push(N::Color(c)),
                None => out.push(N::T(format!("#{h}"))),
            },
            Tok::Ident(id) => match csscolor::named(id) {
                Some(c) => out.push(N::Color(c)),
                None => out.push(N::T(format!("i:{id}"))),
            },
            Tok::Function(f) => match color_fn(&toks, i) {
                Some((c, j)) => {
                    if f.starts_with('-') {
                        out.push(N::T("-".into()));
                    }
                    out.push(N::Color(c));
                    i = j;
                    continue;
                }
                None => {
                    out.push(N::T(format!("f:{f}")));
                    out.push(N::T("(".into()));
                }
            },
            Tok::AtKeyword(a) => out.push(N::T(format!("@{a}"))),
            Tok::Str(s) => out.push(N::T(format!("s:{s}"))),
            Tok::BadStr => out.push(N::T("badstr".into())),
            Tok::Url(u) => out.push(N::T(format!("u:{u}"))),
            Tok::BadUrl => out.push(N::T("badurl".into())),
            Tok::Delim(c) => out.push(N::T(c.to_string())),
            Tok::Colon => out.push(N::T(":".into())),
            Tok::Semi => out.push(N::T(";".into())),
            Tok::Comma => out.push(N::T(",".into())),
            Tok::Open(c) | Tok::Close(c) => out.push(N::T(c.to_string())),
            Tok::Cdo => out.push(N::T("<!--".into())),
            Tok::Cdc => out.push(N::T("-->".into())),
        }
        i += 1;
    }
    // whitespace: collapse, drop next to tight punctuation and at the ends
    let is_tight = |n: &N| matches!(n, N::T(s) if s.chars().count() == 1 && TIGHT.contains(&s.chars().next().unwrap()));
    let mut v: Vec<N> = vec![];
    for n in out {
        if let N::Ws = n {
            if v.is_empty() || matches!(v.last(), Some(N::Ws)) || v.last().is_some_and(is_tight) {
                continue;
            }
            v.push(N::Ws);
        } else {
            if is_tight(&n) && matches!(v.last(), Some(N::Ws)) {
                v.pop();
            }
            v.push(n);
        }
    }
    while matches!(v.last(), Some(N::Ws)) {
        v.pop();
    }
    // `;` before `}` and at the very end
    let mut w: Vec<N> = vec![];
    for (k, n) in v.iter().enumerate() {
        if matches!(n, N::T(s) if s == ";") {
            let next = v.get(k + 1);
            if next.is_none() || matches!(next, Some(N::T(s)) if s == "}") {
                continue;
            }
        }
        w.push(n.clone());
    }
    // blocks that are empty (once comments are gone) disappear with their prelude
    loop {
        let mut hit = None;
        for k in 0..w.len().saturating_sub(1) {
            if matches!(&w[k], N::T(s) if s == "{") && matches!(&w[k + 1], N::T(s) if s == "}") {
                hit = Some(k);
                break;
            }
        }
        let Some(k) = hit else { break };
        let mut st = k;
        while st > 0 && !matches!(&w[st - 1], N::T(s) if s == "{" || s == "}" || s == ";") {
            st -= 1;
        }
        w.drain(st..=k + 1);
    }
    // adjacent blocks with the same prelude are merged (`a{x:1}a{y:2}` == `a{x:1;y:2}`): a rule that only
    // held a loud comment splits its parent's block in expanded output only
    loop {
        let is = |n: &N, c: &str| matches!(n, N::T(s) if s == c);
        let mut stack: Vec<(usize, usize)> = vec![]; // (prelude start, index of `{`)
        let mut hit = None;
        let mut boundary = 0usize;
        for k in 0..w.len() {
            if is(&w[k], "{") {
                stack.push((boundary, k));
                boundary = k + 1;
            } else if is(&w[k], "}") {
                if let Some((ps, o)) = stack.pop() {
                    let plen = o - ps;
                    // (a `{..}` right after a colon is a brace value of a custom property, `--x: {a: b}`, not a block)
                    if plen > 0 && !is(&w[o - 1], ":") && k + 1 + plen < w.len() && is(&w[k + 1 + plen], "{") && (0..plen).all(|j| eq(&w[ps + j], &w[k + 1 + j])) {
                        hit = Some((k, plen));
                        break;
                    }
                }
                boundary = k + 1;
            } else if is(&w[k], ";") {
                boundary = k + 1;
            }
        }
        let Some((k, plen)) = hit else { break };
        let need_semi = k > 0 && !is(&w[k - 1], "{") && !is(&w[k - 1], ";") && !is(&w[k - 1], "}");
        w.drain(k..=k + 1 + plen);
        if need_semi {
            w.insert(k, N::T(";".into()));
        }
    }
    // removing blocks may leave `;` before `}`, at the end, or doubled
    let mut out: Vec<N> = vec![];
    for (k, n) in w.iter().enumerate() {
        if matches!(n, N::T(s) if s == ";") {
            let next = w.get(k + 1);
            if next.is_none() || matches!(next, Some(N::T(s)) if s == "}" || s == ";") || out.is_empty() || matches!(out.last(), Some(N::T(s)) if s == "{" || s == "}") {
                continue;
            }
        }
        out.push(n.clone());
    }
    out
}

fn show(v: &[N]) -> String {
    v.iter()
        .map(|n| match n {
            N::T(s) => s.clone(),
            N::Num(a, b) => format!("{a}{b}"),
            N::Color(c) => format!("<color {:.1} {:.1} {:.1} {:.3}>", c[0], c[1], c[2], c[3]),
            N::Ws => " ".into(),
        })
        .collect::<Vec<_>>()
        .join("")
}

fn region(c: &Case, e: &Res, k: &Res) -> Option<&'static str> {
    // comments are not evaluated at all in compressed style: an error inside a loud comment's interpolation is lost
    if e.is_err() && k.is_ok() && c.text.contains("/*") && c.text.contains("#{") {
        return Some("C08-comment-interpolation-error-only-expanded");
    }
    None
}

impl Prop for C08 {
    type Case = Case;
    const ID: &'static str = "C08";
    const ISOLATED: bool = true;
    fn new() -> Self {
        C08
    }
    fn rule(&self) -> String {
        "same inputs as C07 (safe and tame G-prog stylesheets, forced-unicode programs, plain-CSS re-reads, the inputs of all non-ignored spec tests as scss and css), each compiled expanded and compressed at precision 10. Oracle: both fail with the same error text, or both succeed and the token streams of the independent CSS tokenizer are equal after one normaliser applied to both sides (comments and marker dropped, whitespace next to punctuation dropped, `;` before `}` dropped, empty blocks dropped, leading zero restored, colour tokens -> rgba compared within half a channel unit). Non-trivial: both succeed, at least one declaration, and the raw texts differ in more than whitespace; distinct by input".into()
    }
    fn assumptions(&self) -> Vec<String> {
        vec![
            "the same normaliser is applied to both outputs, so it can only merge, never separate, equal stylesheets".into(),
            "colour notations are equal when every rgb channel differs by at most 0.5 (hex rounding) and alpha by at most 0.0021".into(),
            "outputs are not compared token-wise when the source can put a raw quote, backslash escape or bracket into the output through a string (the tokenizer would then see the two layouts differently); error parity is still checked".into(),
        ]
    }
    fn phases(&self, tier: Tier) -> Vec<Phase<Case>> {
        style_phases(tier, 10)
    }
    fn on_worker_death(&self, _c: &Case, why: &str) -> Verdict {
        // a crash (e.g. the stack overflow of a mixin that includes itself) is C01's subject; this property speaks
        // about the output of compilations that return
        Verdict::discard(format!("worker died, not judged here: {}", why.chars().take(80).collect::<String>()))
    }
    fn check(&self, c: &Case) -> Verdict {
        let _ = _unused;
        if c.text.contains("unique-id") || c.text.contains("unique_id") || c.text.contains("random(") {
            return Verdict::discard("domain: input calls unique-id() or random()");
        }
        let e = rs::compile(c.text.as_bytes(), &Opts { css: c.css, style: St::Expanded, precision: 10 });
        let k = rs::compile(c.text.as_bytes(), &Opts { css: c.css, style: St::Compressed, precision: 10 });
        match (&e, &k) {
            (Res::Panic(m), _) | (_, Res::Panic(m)) => Verdict::discard(format!("panic (C01's business): {}", m.chars().take(80).collect::<String>())),
            (Res::Err { text: a, .. }, Res::Err { text: b, .. }) => {
                if a == b {
                    Verdict::pass(false).class("both-fail")
                } else {
                    Verdict::fail(format!("different error texts: expanded {:?} vs compressed {:?}", a.lines().next().unwrap_or(""), b.lines().next().unwrap_or("")))
                }
            }
            (Res::Ok(_), Res::Ok(_)) if super::c07::raw_brackets_possible(&c.text) => {
                // a raw quote or bracket smuggled through a string makes the two outputs tokenise differently by design
                Verdict::pass(false).class("both-ok-tokens-not-judged")
            }
            (Res::Ok(a), Res::Ok(b)) => {
                let (ta, tb) = (String::from_utf8_lossy(a).to_string(), String::from_utf8_lossy(b).to_string());
                let (na, nb) = (normalise(&ta), normalise(&tb));
                let same = na.len() == nb.len() && na.iter().zip(nb.iter()).all(|(x, y)| eq(x, y));
                if same {
                    let squeeze = |s: &str| s.chars().filter(|c| !c.is_whitespace()).collect::<String>();
                    let differs = squeeze(&ta).replace(";}", "}") != squeeze(&tb);
                    let has_decl = na.iter().any(|n| matches!(n, N::T(s) if s == ":"));
                    Verdict::pass(differs && has_decl).class("both-ok").class_if(differs, "notation-differs")
                } else {
                    let at = na.iter().zip(nb.iter()).position(|(x, y)| !eq(x, y)).unwrap_or(na.len().min(nb.len()));
                    let lo = at.saturating_sub(6);
                    // known deviation: `x + <number>` with a non-numeric operand is joined as text when it is
                    // *printed*, so the number inside the joined text loses its leading zero in compressed style.
                    // Deviant model: the outputs agree once every `0` before `.<digit>` is removed from both texts.
                    let strip0 = |t: &str| {
                        let c: Vec<char> = t.chars().collect();
                        let mut o = String::new();
                        for i in 0..c.len() {
                            if c[i] == '0' && c.get(i + 1) == Some(&'.') && c.get(i + 2).is_some_and(|d| d.is_ascii_digit()) && !(i > 0 && c[i - 1] == '.') {
                                continue;
                            }
                            o.push(c[i]);
                        }
                        o
                    };
                    let (sa, sb) = (normalise(&strip0(&ta)), normalise(&strip0(&tb)));
                    if c.text.contains('+') && sa.len() == sb.len() && sa.iter().zip(sb.iter()).all(|(x, y)| eq(x, y)) {
                        return Verdict::known("C08-plus-join-leading-zero", format!("styles disagree at token {at}: expanded …{}… vs compressed …{}…", show(&na[lo..(at + 6).min(na.len())]), show(&nb[lo..(at + 6).min(nb.len())])));
                    }
                    // known deviation of the same kind: `<colour> - <text>` is joined when it is printed, so the colour inside the
                    // joined text is written in the notation of the style, and `#000-0` is one hash token, not a colour
                    let hex_dash = |t: &str| {
                        let b = t.as_bytes();
                        (0..b.len()).any(|i| {
                            b[i] == b'#' && {
                                let n = b[i + 1..].iter().take_while(|x| x.is_ascii_hexdigit()).count();
                                matches!(n, 3 | 4 | 6 | 8) && b.get(i + 1 + n) == Some(&b'-')
                            }
                        })
                    };
                    if c.text.contains(" - ") && (hex_dash(&tb) || hex_dash(&ta)) {
                        return Verdict::known("C08-minus-join-colour-notation", format!("styles disagree at token {at}: expanded …{}… vs compressed …{}…", show(&na[lo..(at + 6).min(na.len())]), show(&nb[lo..(at + 6).min(nb.len())])));
                    }
                    Verdict::fail(format!(
                        "styles disagree at token {at}: expanded …{}… vs compressed …{}…",
                        show(&na[lo..(at + 6).min(na.len())]),
                        show(&nb[lo..(at + 6).min(nb.len())])
                    ))
                }
            }
            _ => {
                let msg = format!("one style fails: expanded {} / compressed {}", e.brief().chars().take(200).collect::<String>(), k.brief().chars().take(200).collect::<String>());
                match region(c, &e, &k) {
                    Some(id) => Verdict::known(id, msg),
                    None => Verdict::fail(msg),
                }
            }
        }
    }
}
