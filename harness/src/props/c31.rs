//! C31 Color channels stay in range and conversions round-trip.
//! (The colour generator `color()` is shared with C32 and C33.)

use crate::csscolor;
use crate::engine::{Phase, Prop, Tier, Verdict};
use crate::rs::{self, Res};
use proptest::prelude::*;
use serde::{Deserialize, Serialize};

pub struct C31;

#[derive(Clone, Debug, Serialize, Deserialize)]
pub struct Col {
    pub text: String,
    /// reference rgba (channels 0..=255, alpha 0..=1) after CSS clamping of the constructor arguments
    pub rgba: [f64; 4],
    pub origin: String,
    /// hsl() with saturation above 100% or lightness outside 0%..100% (rsass keeps those, see the open finding)
    #[serde(default)]
    pub hsl_out_of_range: bool,
}

#[derive(Clone, Debug, Serialize, Deserialize)]
pub struct Case {
    pub c: Col,
    /// another construction of the same reference colour
    pub twin: Option<Col>,
}

fn f(x: f64) -> String {
    let s = format!("{x:.12}");
    let s = s.trim_end_matches('0').trim_end_matches('.').to_string();
    if s == "-0" { "0".into() } else { s }
}

fn alpha_arg() -> BoxedStrategy<Option<(String, f64)>> {
    prop_oneof![
        5 => Just(None),
        3 => (0u32..=100).prop_map(|a| Some((f(a as f64 / 100.0), a as f64 / 100.0))),
        1 => (-50i32..=150).prop_map(|a| Some((f(a as f64 / 100.0), (a as f64 / 100.0).clamp(0.0, 1.0)))),
        1 => (0u32..=100).prop_map(|a| Some((format!("{a}%"), a as f64 / 100.0))),
    ]
    .boxed()
}

pub fn hex_color() -> BoxedStrategy<Col> {
    prop_oneof![
        (0u32..4096).prop_map(|v| format!("{v:03x}")),
        (0u32..=0xffffff).prop_map(|v| format!("{v:06x}")),
        (0u32..=0xffffff).prop_map(|v| format!("{v:06X}")),
        (0u32..65536).prop_map(|v| format!("{v:04x}")),
        any::<u32>().prop_map(|v| format!("{v:08x}")),
    ]
    .prop_map(|h| Col { rgba: csscolor::hex(&h).unwrap(), text: format!("#{h}"), origin: "hex".into(), hsl_out_of_range: false })
    .boxed()
}

pub fn named_color() -> BoxedStrategy<Col> {
    (0..csscolor::NAMED.len() + 1).prop_map(|i| {
        let n = if i == csscolor::NAMED.len() { "transparent" } else { csscolor::NAMED[i].0 };
        Col { text: n.to_string(), rgba: csscolor::named(n).unwrap(), origin: "name".into(), hsl_out_of_range: false }
    })
    .boxed()
}

pub fn rgb_color() -> BoxedStrategy<Col> {
    let chan = prop_oneof![4 => (0i32..=255).prop_map(|v| v as f64), 1 => (-50i32..=300).prop_map(|v| v as f64), 1 => (0i32..=2550).prop_map(|v| v as f64 / 10.0)];
    let pct = prop_oneof![3 => (0i32..=100).prop_map(|v| v as f64), 1 => (-20i32..=120).prop_map(|v| v as f64), 1 => (0i32..=1000).prop_map(|v| v as f64 / 10.0)];
    prop_oneof![
        3 => (chan.clone(), chan.clone(), chan, alpha_arg(), any::<bool>()).prop_map(|(r, g, b, a, modern)| {
            let rgba = [r.clamp(0.0, 255.0), g.clamp(0.0, 255.0), b.clamp(0.0, 255.0), a.as_ref().map(|x| x.1).unwrap_or(1.0)];
            let text = match (&a, modern) {
                (None, false) => format!("rgb({}, {}, {})", f(r), f(g), f(b)),
                (None, true) => format!("rgb({} {} {})", f(r), f(g), f(b)),
                (Some((t, _)), false) => format!("rgba({}, {}, {}, {t})", f(r), f(g), f(b)),
                (Some((t, _)), true) => format!("rgb({} {} {} / {t})", f(r), f(g), f(b)),
            };
            Col { text, rgba, origin: "rgb".into(), hsl_out_of_range: false }
        }),
        1 => (pct.clone(), pct.clone(), pct, alpha_arg()).prop_map(|(r, g, b, a)| {
            let c = |p: f64| (p * 2.55).clamp(0.0, 255.0);
            let rgba = [c(r), c(g), c(b), a.as_ref().map(|x| x.1).unwrap_or(1.0)];
            let text = match &a {
                None => format!("rgb({}%, {}%, {}%)", f(r), f(g), f(b)),
                Some((t, _)) => format!("rgba({}%, {}%, {}%, {t})", f(r), f(g), f(b)),
            };
            Col { text, rgba, origin: "rgb%".into(), hsl_out_of_range: false }
        }),
    ]
    .boxed()
}

pub fn hsl_color() -> BoxedStrategy<Col> {
    let hue = prop_oneof![3 => (0i32..360).prop_map(|v| v as f64), 1 => (-720i32..=720).prop_map(|v| v as f64), 1 => (0i32..3600).prop_map(|v| v as f64 / 10.0), 1 => proptest::sample::select(&[0.0, 60.0, 120.0, 180.0, 240.0, 300.0, 360.0, 30.0, 359.9][..])];
    let pct = prop_oneof![4 => (0i32..=100).prop_map(|v| v as f64), 1 => (-20i32..=130).prop_map(|v| v as f64), 1 => (0i32..=1000).prop_map(|v| v as f64 / 10.0), 1 => proptest::sample::select(&[0.0, 100.0, 50.0][..])];
    (hue, pct.clone(), pct, alpha_arg(), 0u8..3).prop_map(|(h, s, l, a, form)| {
        let rgb = csscolor::hsl_to_rgb(h, (s / 100.0).clamp(0.0, 1.0), (l / 100.0).clamp(0.0, 1.0));
        let rgba = [rgb[0], rgb[1], rgb[2], a.as_ref().map(|x| x.1).unwrap_or(1.0)];
        let text = match (&a, form) {
            (None, 0) => format!("hsl({}, {}%, {}%)", f(h), f(s), f(l)),
            (None, 1) => format!("hsl({}deg {}% {}%)", f(h), f(s), f(l)),
            (None, _) => format!("hsl({} {}% {}%)", f(h), f(s), f(l)),
            (Some((t, _)), 0) => format!("hsla({}, {}%, {}%, {t})", f(h), f(s), f(l)),
            (Some((t, _)), _) => format!("hsl({} {}% {}% / {t})", f(h), f(s), f(l)),
        };
        Col { text, rgba, origin: "hsl".into(), hsl_out_of_range: s > 100.0 || l < 0.0 || l > 100.0 }
    })
    .boxed()
}

pub fn hwb_color() -> BoxedStrategy<Col> {
    let hue = prop_oneof![3 => (0i32..360).prop_map(|v| v as f64), 1 => (-720i32..=720).prop_map(|v| v as f64)];
    let pct = prop_oneof![4 => (0i32..=100).prop_map(|v| v as f64), 1 => (0i32..=1000).prop_map(|v| v as f64 / 10.0)];
    (hue, pct.clone(), pct, alpha_arg()).prop_map(|(h, w, b, a)| {
        let rgb = csscolor::hwb_to_rgb(h, w / 100.0, b / 100.0);
        let rgba = [rgb[0], rgb[1], rgb[2], a.as_ref().map(|x| x.1).unwrap_or(1.0)];
        let text = match &a {
            None => format!("hwb({} {}% {}%)", f(h), f(w), f(b)),
            Some((t, _)) => format!("hwb({} {}% {}% / {t})", f(h), f(w), f(b)),
        };
        Col { text, rgba, origin: "hwb".into(), hsl_out_of_range: false }
    })
    .boxed()
}

pub fn color() -> BoxedStrategy<Col> {
    prop_oneof![3 => hex_color(), 2 => named_color(), 4 => rgb_color(), 4 => hsl_color(), 2 => hwb_color()].boxed()
}

/// another way to write (exactly) the same colour
fn twin_of(c: &Col, k: usize) -> Option<Col> {
    let [r, g, b, a] = c.rgba;
    let integral = [r, g, b].iter().all(|x| (x - x.round()).abs() < 1e-9);
    let mk = |text: String, origin: &str| Some(Col { text, rgba: c.rgba, origin: origin.into(), hsl_out_of_range: false });
    match k % 5 {
        0 if integral && a == 1.0 => mk(format!("#{:02x}{:02x}{:02x}", r.round() as u8, g.round() as u8, b.round() as u8), "hex"),
        1 => mk(format!("rgba({}, {}, {}, {})", f(r), f(g), f(b), f(a)), "rgb"),
        2 => {
            let [h, s, l] = csscolor::rgb_to_hsl(r, g, b);
            mk(format!("hsla({}, {}%, {}%, {})", f(h), f(s * 100.0), f(l * 100.0), f(a)), "hsl")
        }
        3 => {
            let [h, _, _] = csscolor::rgb_to_hsl(r, g, b);
            let w = r.min(g).min(b) / 255.0;
            let bl = 1.0 - r.max(g).max(b) / 255.0;
            mk(format!("hwb({} {}% {}% / {})", f(h), f(w * 100.0), f(bl * 100.0), f(a)), "hwb")
        }
        _ if integral && a == 1.0 => csscolor::NAMED.iter().find(|(_, v)| *v == ((r.round() as u32) << 16 | (g.round() as u32) << 8 | b.round() as u32)).and_then(|(n, _)| mk(n.to_string(), "name")),
        _ => None,
    }
}

fn cases() -> impl Strategy<Value = Case> {
    (color(), any::<usize>()).prop_map(|(c, k)| {
        let twin = twin_of(&c, k);
        Case { c, twin }
    })
}

fn num(t: &Option<String>) -> Option<(f64, String)> {
    let t = t.as_deref()?;
    let end = t.find(|c: char| !(c.is_ascii_digit() || c == '.' || c == '-')).unwrap_or(t.len());
    Some((t[..end].parse().ok()?, t[end..].to_string()))
}

impl Prop for C31 {
    type Case = Case;
    const ID: &'static str = "C31";
    fn new() -> Self {
        C31
    }
    fn rule(&self) -> String {
        "colours from hex literals (3/4/6/8 digits, both cases), all 148 names and transparent, rgb()/rgba() with integer, fractional, out-of-range and percentage channels (legacy and space syntax), hsl()/hsla() with hues in [-720, 720] and saturation/lightness in [-20%, 130%], hwb(), each with and without alpha (also out of range and in percent). Oracle: red/green/blue in [0, 255] and within 0.5 of the reference colour; saturation, lightness, whiteness, blackness in [0%, 100%]; alpha in [0, 1] and equal to the clamped argument; hue in [0, 360); rebuilding from the colour's own hsl and hwb channels (and rgb channels when those are integral) is == the colour; a second construction of the same reference colour in another notation (hex, rgb, hsl with 12 decimals, hwb, name) is == to it. Non-trivial: an argument out of range, a non-rgb origin, or a twin in another notation; distinct by case".into()
    }
    fn assumptions(&self) -> Vec<String> {
        vec!["reference conversions are the CSS Color 4 formulas (harness/src/csscolor.rs); constructor arguments are clamped as CSS prescribes for legacy colours".into()]
    }
    fn phases(&self, tier: Tier) -> Vec<Phase<Case>> {
        vec![Phase::random("colours", cases(), tier.pick(30_000, 1_500_000))]
    }
    fn check(&self, c: &Case) -> Verdict {
        if c.c.hsl_out_of_range {
            // inside the open finding's region the first mismatch is usually a channel value; whiteness and blackness
            // are judged first there, so that they are not hidden behind it
            let t = &c.c.text;
            if let Ok(r) = rs::probes(&[format!("color.whiteness({t})"), format!("color.blackness({t})")]) {
                for (i, name) in ["whiteness", "blackness"].iter().enumerate() {
                    match num(&r[i]) {
                        Some((v, u)) if u == "%" && (0.0..=100.0).contains(&v) => {}
                        other => return Verdict::fail(format!("{name}({t}) = {other:?} is outside 0%..100%")),
                    }
                }
            }
        }
        let v = self.check_inner(c);
        if let crate::engine::Outcome::Fail { msg, region: None } = &v.outcome {
            // (whiteness and blackness are computed from the clamped rgb channels and stay in range even there)
            if c.c.hsl_out_of_range && !msg.starts_with("panic") && !msg.starts_with("whiteness(") && !msg.starts_with("blackness(") {
                return Verdict::known("C31-hsl-saturation-lightness-not-clamped", msg.clone());
            }
        }
        v
    }
}

impl C31 {
    fn check_inner(&self, c: &Case) -> Verdict {
        let t = &c.c.text;
        let integral = c.c.rgba[..3].iter().all(|x| (x - x.round()).abs() < 1e-9);
        let mut probes = vec![
            format!("red({t})"), format!("green({t})"), format!("blue({t})"), format!("hue({t})"), format!("saturation({t})"), format!("lightness({t})"), format!("color.whiteness({t})"), format!("color.blackness({t})"), format!("alpha({t})"),
            format!("hsla(hue({t}), saturation({t}), lightness({t}), alpha({t})) == {t}"),
            format!("color.hwb(hue({t}), color.whiteness({t}), color.blackness({t}), alpha({t})) == {t}"),
            format!("rgba(red({t}), green({t}), blue({t}), alpha({t})) == {t}"),
        ];
        if let Some(tw) = &c.twin {
            probes.push(format!("{} == {t}", tw.text));
            probes.push(format!("{t} == {}", tw.text));
        }
        let r = match rs::probes(&probes) {
            Ok(r) => r,
            Err(Res::Panic(m)) => return Verdict::fail(format!("panic for {t}: {m}")),
            Err(e) => return Verdict::fail(format!("channel functions fail on {t}: {}", e.brief().chars().take(150).collect::<String>())),
        };
        let names = ["red", "green", "blue", "hue", "saturation", "lightness", "whiteness", "blackness", "alpha"];
        let mut vals = vec![];
        for i in 0..9 {
            match num(&r[i]) {
                Some(v) => vals.push(v),
                None => return Verdict::fail(format!("{}({t}) printed {:?}", names[i], r[i])),
            }
        }
        for i in 0..3 {
            let (v, u) = &vals[i];
            if !u.is_empty() || *v < 0.0 || *v > 255.0 {
                return Verdict::fail(format!("{}({t}) = {v}{u} is outside 0..255", names[i]));
            }
            if (v - c.c.rgba[i]).abs() > 0.5 + 1e-6 {
                return Verdict::fail(format!("{}({t}) = {v}, the reference colour has {}", names[i], c.c.rgba[i]));
            }
        }
        let (h, hu) = &vals[3];
        if hu != "deg" || *h < 0.0 || *h >= 360.0 {
            return Verdict::fail(format!("hue({t}) = {h}{hu} is outside [0deg, 360deg)"));
        }
        for i in 4..8 {
            let (v, u) = &vals[i];
            if u != "%" || *v < 0.0 || *v > 100.0 {
                let msg = format!("{}({t}) = {v}{u} is outside 0%..100%", names[i]);
                return Verdict::fail(msg);
            }
        }
        let (a, au) = &vals[8];
        if !au.is_empty() || *a < 0.0 || *a > 1.0 || (a - c.c.rgba[3]).abs() > 1e-6 {
            return Verdict::fail(format!("alpha({t}) = {a}{au}, expected {}", c.c.rgba[3]));
        }
        let truth = |i: usize| r.get(i).and_then(|x| x.as_deref()) == Some("true");
        if !truth(9) {
            return Verdict::fail(format!("rebuilding {t} from its own hue/saturation/lightness/alpha is not == to it"));
        }
        if !truth(10) {
            return Verdict::fail(format!("rebuilding {t} from its own hue/whiteness/blackness/alpha is not == to it"));
        }
        if integral && !truth(11) {
            return Verdict::fail(format!("rebuilding {t} from its own red/green/blue/alpha is not == to it"));
        }
        if let Some(tw) = &c.twin {
            if !truth(12) || !truth(13) {
                return Verdict::fail(format!("{} and {t} denote the same rgba colour {:?} but are not == ({:?}, {:?})", tw.text, c.c.rgba, r[12], r[13]));
            }
        }
        let clamped = c.c.text.contains('-') || c.c.origin != "hex" && c.c.origin != "name";
        Verdict::pass(clamped || c.twin.is_some()).class(c.c.origin.clone()).class_if(c.twin.is_some(), "twin")
    }
}
