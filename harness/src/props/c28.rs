//! C28 List functions follow the Sass list model.

use crate::engine::{Phase, Prop, Tier, Verdict};
use crate::rs::{self, Res};
use proptest::prelude::*;
use serde::{Deserialize, Serialize};

pub struct C28;

#[derive(Clone, Copy, Debug, Serialize, Deserialize, PartialEq)]
pub enum Sep {
    Space,
    Comma,
    Slash,
    Undecided,
}

/// how a list value is written
#[derive(Clone, Debug, Serialize, Deserialize, PartialEq)]
pub enum Form {
    /// elements with separator (space/comma/slash), bracketed or not; 0 and 1 elements are handled by the printer
    List { elems: Vec<String>, sep: Sep, bracketed: bool },
    /// a value that is not a list
    Single(String),
    /// map entries
    Map(Vec<(String, String)>),
    /// argument list of a function with a rest parameter
    Arglist(Vec<String>),
}

#[derive(Clone, Debug, Serialize, Deserialize)]
pub enum Op {
    Length,
    Nth(i32),
    SetNth(i32, String),
    /// value, explicit separator (auto = None)
    Append(String, Option<Sep>),
    /// second list, separator, bracketed (auto = None)
    Join(Form, Option<Sep>, Option<bool>),
    Index(String),
    Zip(Vec<Form>),
    Separator,
    IsBracketed,
}

#[derive(Clone, Debug, Serialize, Deserialize)]
pub struct Case {
    pub l: Form,
    pub op: Op,
    pub module_form: bool,
}

const ATOMS: &[&str] = &["a", "b", "c", "1", "2", "10px", "\"q\"", "true", "null"];

#[derive(Clone, Debug, PartialEq)]
struct L {
    /// element expressions (source text; a pair of a map is `(k v)`)
    elems: Vec<String>,
    sep: Sep,
    bracketed: bool,
}

fn model(f: &Form) -> L {
    match f {
        Form::List { elems, sep, bracketed } => {
            let s = match (elems.len(), sep) {
                (0, _) => Sep::Undecided,
                (1, Sep::Comma) => Sep::Comma,
                // `[a]` has no separator yet; the unbracketed one-element list is built with join(.., $separator: space)
                (1, _) => if *bracketed { Sep::Undecided } else { Sep::Space },
                (_, s) => *s,
            };
            L { elems: elems.clone(), sep: s, bracketed: *bracketed }
        }
        Form::Single(a) => L { elems: vec![a.clone()], sep: Sep::Undecided, bracketed: false },
        Form::Map(m) => L { elems: m.iter().map(|(k, v)| format!("({k} {v})")).collect(), sep: if m.is_empty() { Sep::Undecided } else { Sep::Comma }, bracketed: false },
        Form::Arglist(a) => L { elems: a.clone(), sep: Sep::Comma, bracketed: false },
    }
}

fn src(f: &Form) -> String {
    match f {
        Form::List { elems, sep, bracketed } => {
            let (o, c) = if *bracketed { ("[", "]") } else { ("(", ")") };
            match (elems.len(), sep) {
                (0, _) => format!("{o}{c}"),
                (1, Sep::Comma) => format!("{o}{},{c}", elems[0]),
                (1, _) => {
                    if *bracketed { format!("[{}]", elems[0]) } else { format!("list.join((), {}, $separator: space)", elems[0]) }
                }
                (_, Sep::Comma) => format!("{o}{}{c}", elems.join(", ")),
                (_, Sep::Slash) => {
                    if *bracketed { format!("list.join(list.slash({}), (), $bracketed: true)", elems.join(", ")) } else { format!("list.slash({})", elems.join(", ")) }
                }
                _ => format!("{o}{}{c}", elems.join(" ")),
            }
        }
        Form::Single(a) => a.clone(),
        Form::Map(m) => {
            if m.is_empty() { "map.remove((zz: 1), zz)".into() } else { format!("({})", m.iter().map(|(k, v)| format!("{k}: {v}")).collect::<Vec<_>>().join(", ")) }
        }
        Form::Arglist(a) => format!("al({})", a.join(", ")),
    }
}

fn sep_name(s: Sep) -> &'static str {
    match s {
        Sep::Comma => "comma",
        Sep::Slash => "slash",
        _ => "space",
    }
}

/// expected result: Err = the call must fail
#[derive(Debug)]
enum Expect {
    Error,
    Value(String),
    Null,
    List(L),
    /// list of space lists (zip)
    Rows(Vec<Vec<String>>),
}

fn resolve(i: i32, n: usize) -> Option<usize> {
    let n = n as i32;
    if i >= 1 && i <= n {
        Some((i - 1) as usize)
    } else if i <= -1 && i >= -n {
        Some((n + i) as usize)
    } else {
        None
    }
}

fn expect(c: &Case) -> Expect {
    let l = model(&c.l);
    match &c.op {
        Op::Length => Expect::Value(l.elems.len().to_string()),
        Op::Nth(i) => match resolve(*i, l.elems.len()) {
            Some(k) => Expect::Value(l.elems[k].clone()),
            None => Expect::Error,
        },
        Op::SetNth(i, v) => match resolve(*i, l.elems.len()) {
            Some(k) => {
                let mut e = l.elems.clone();
                e[k] = v.clone();
                Expect::List(L { elems: e, sep: l.sep, bracketed: l.bracketed })
            }
            None => Expect::Error,
        },
        Op::Append(v, sep) => {
            let mut e = l.elems.clone();
            e.push(v.clone());
            let s = sep.unwrap_or(if l.sep == Sep::Undecided { Sep::Space } else { l.sep });
            Expect::List(L { elems: e, sep: s, bracketed: l.bracketed })
        }
        Op::Join(f2, sep, br) => {
            let l2 = model(f2);
            let mut e = l.elems.clone();
            e.extend(l2.elems.clone());
            let s = sep.unwrap_or(if l.sep != Sep::Undecided { l.sep } else if l2.sep != Sep::Undecided { l2.sep } else { Sep::Space });
            Expect::List(L { elems: e, sep: s, bracketed: br.unwrap_or(l.bracketed) })
        }
        Op::Index(v) => {
            // atoms are pairwise unequal except identical texts; pairs of maps only equal themselves
            match l.elems.iter().position(|e| e == v) {
                Some(k) => Expect::Value((k + 1).to_string()),
                None => Expect::Null,
            }
        }
        Op::Zip(others) => {
            let mut all = vec![l.elems.clone()];
            all.extend(others.iter().map(|f| model(f).elems));
            let n = all.iter().map(|v| v.len()).min().unwrap_or(0);
            Expect::Rows((0..n).map(|k| all.iter().map(|v| v[k].clone()).collect()).collect())
        }
        Op::Separator => Expect::Value(sep_name(l.sep).to_string()),
        Op::IsBracketed => Expect::Value(l.bracketed.to_string()),
    }
}

fn call(c: &Case) -> String {
    let l = src(&c.l);
    let f = |g: &'static str, m: &'static str| if c.module_form { m } else { g };
    let sep_arg = |s: &Option<Sep>| s.map(|s| format!(", $separator: {}", sep_name(s))).unwrap_or_default();
    match &c.op {
        Op::Length => format!("{}({l})", f("length", "list.length")),
        Op::Nth(i) => format!("{}({l}, {i})", f("nth", "list.nth")),
        Op::SetNth(i, v) => format!("{}({l}, {i}, {v})", f("set-nth", "list.set-nth")),
        Op::Append(v, s) => format!("{}({l}, {v}{})", f("append", "list.append"), sep_arg(s)),
        Op::Join(f2, s, b) => format!("{}({l}, {}{}{})", f("join", "list.join"), src(f2), sep_arg(s), b.map(|b| format!(", $bracketed: {b}")).unwrap_or_default()),
        Op::Index(v) => format!("{}({l}, {v})", f("index", "list.index")),
        Op::Zip(o) => format!("{}({l}{})", f("zip", "list.zip"), o.iter().map(|x| format!(", {}", src(x))).collect::<String>()),
        Op::Separator => format!("{}({l})", f("list-separator", "list.separator")),
        Op::IsBracketed => format!("{}({l})", f("is-bracketed", "list.is-bracketed")),
    }
}

fn atom() -> impl Strategy<Value = String> {
    proptest::sample::select(ATOMS).prop_map(|s| s.to_string())
}

fn form() -> BoxedStrategy<Form> {
    prop_oneof![
        6 => (proptest::collection::vec(atom(), 0..7), proptest::sample::select(&[Sep::Space, Sep::Comma, Sep::Slash][..]), proptest::bool::weighted(0.25)).prop_map(|(elems, sep, bracketed)| Form::List { elems, sep, bracketed }),
        // (not null: rsass treats a bare null like an empty list, which it cannot tell apart internally)
        1 => atom().prop_map(|a| Form::Single(if a == "null" { "a".into() } else { a })),
        2 => proptest::collection::vec((proptest::sample::select(&["k1", "k2", "k3", "7"][..]), atom()), 0..4).prop_map(|v| {
            let mut m: Vec<(String, String)> = vec![];
            for (k, x) in v {
                if !m.iter().any(|(k2, _)| k2 == k) {
                    m.push((k.to_string(), x));
                }
            }
            Form::Map(m)
        }),
        1 => proptest::collection::vec(atom(), 0..4).prop_map(Form::Arglist),
    ]
    .boxed()
}

fn return_op(o: Op) -> Op {
    o
}

fn cases() -> impl Strategy<Value = Case> {
    let sep = proptest::option::of(proptest::sample::select(&[Sep::Space, Sep::Comma, Sep::Slash][..]));
    (form(), 0u8..9, -8i32..=8, atom(), sep, form(), proptest::option::of(any::<bool>()), proptest::collection::vec(form(), 0..3), any::<bool>(), any::<usize>()).prop_map(|(l, k, i, v, s, f2, b, zs, module_form, pick)| {
        let n = model(&l).elems.len() as i32;
        let near = (i.rem_euclid(2 * (n + 1) + 1)) - (n + 1);
        let op = match k {
            0 => Op::Length,
            1 => Op::Nth(near),
            2 => Op::SetNth(near, v),
            3 => Op::Append(v, s),
            4 => Op::Join(f2, s, b),
            5 => {
                let e = model(&l).elems;
                if let (Form::Map(m), 1) = (&l, pick % 4) {
                    // a pair with an existing key and another value: not an element of the map
                    if !m.is_empty() {
                        let (key, _) = &m[pick / 4 % m.len()];
                        return_op(Op::Index(format!("({key} zz-other)")))
                    } else {
                        Op::Index(v)
                    }
                } else if !e.is_empty() && pick % 3 != 0 {
                    Op::Index(e[pick % e.len()].clone())
                } else {
                    Op::Index(v)
                }
            }
            6 => Op::Zip(zs),
            7 => Op::Separator,
            _ => Op::IsBracketed,
        };
        Case { l, op, module_form }
    })
}

impl Prop for C28 {
    type Case = Case;
    const ID: &'static str = "C28";
    fn new() -> Self {
        C28
    }
    fn rule(&self) -> String {
        "lists of 0..6 atoms with space, comma and slash separators, bracketed or not, single-element lists of each kind, (), [], plain values, maps of 0..3 entries and argument lists (through a function with a rest parameter); length, nth and set-nth with every index in [-n-1, n+1], append with every explicit separator or auto, join with a second list of any form and every explicit $separator/$bracketed or auto, index of present and absent values, zip of 1..3 lists, separator, is-bracketed; global and module names. Oracle: reference list model; list results are compared structurally through further probes (length, list.separator, is-bracketed, nth(r, i) == element) so that printing conventions cannot interfere; invalid indices must be errors. Non-trivial: a list with >= 2 elements, a map or arglist operand, or an explicit separator/bracketed argument; distinct by case".into()
    }
    fn phases(&self, tier: Tier) -> Vec<Phase<Case>> {
        vec![Phase::random("lists", cases(), tier.pick(30_000, 1_500_000))]
    }
    fn render(&self, c: &Case) -> serde_json::Value {
        serde_json::json!({"call": call(c), "expected": format!("{:?}", expect(c))})
    }
    fn check(&self, c: &Case) -> Verdict {
        let e = call(c);
        let want = expect(c);
        let prelude = "@function al($args...) { @return $args; }\n";
        let mut probes: Vec<String> = vec![];
        let mut wants: Vec<String> = vec![];
        match &want {
            Expect::Error => probes.push(format!("inspect({e})")),
            Expect::Null => {
                probes.push(format!("inspect({e})"));
                wants.push("null".into());
            }
            Expect::Value(v) => {
                let numeric = matches!(c.op, Op::Length | Op::Index(_));
                let word = matches!(c.op, Op::Separator | Op::IsBracketed);
                if numeric || word {
                    probes.push(format!("inspect({e})"));
                    wants.push(v.clone());
                } else {
                    probes.push(format!("{e} == {v}"));
                    wants.push("true".into());
                }
            }
            Expect::List(l) => {
                probes.push(format!("length({e})"));
                wants.push(l.elems.len().to_string());
                probes.push(format!("list.separator({e})"));
                wants.push(sep_name(l.sep).to_string());
                probes.push(format!("is-bracketed({e})"));
                wants.push(l.bracketed.to_string());
                probes.push(format!("meta.type-of({e})"));
                wants.push(if l.elems.is_empty() && matches!(c.l, Form::Map(_)) && !matches!(c.op, Op::Join(..) | Op::Append(..)) { "map".into() } else { "list".into() });
                for (i, x) in l.elems.iter().enumerate() {
                    probes.push(format!("nth({e}, {}) == {x}", i + 1));
                    wants.push("true".into());
                }
            }
            Expect::Rows(rows) => {
                probes.push(format!("length({e})"));
                wants.push(rows.len().to_string());
                if !rows.is_empty() {
                    probes.push(format!("list.separator({e})"));
                    wants.push("comma".into());
                }
                for (i, r) in rows.iter().enumerate() {
                    probes.push(format!("length(nth({e}, {}))", i + 1));
                    wants.push(r.len().to_string());
                    for (j, x) in r.iter().enumerate() {
                        probes.push(format!("nth(nth({e}, {}), {}) == {x}", i + 1, j + 1));
                        wants.push("true".into());
                    }
                }
            }
        }
        let l = model(&c.l);
        let nontrivial = l.elems.len() >= 2 || matches!(c.l, Form::Map(_) | Form::Arglist(_)) || matches!(&c.op, Op::Append(_, Some(_)) | Op::Join(_, Some(_), _) | Op::Join(_, _, Some(_)));
        let kind = match c.op { Op::Length => "length", Op::Nth(_) => "nth", Op::SetNth(..) => "set-nth", Op::Append(..) => "append", Op::Join(..) => "join", Op::Index(_) => "index", Op::Zip(_) => "zip", Op::Separator => "separator", Op::IsBracketed => "is-bracketed" };
        match (rs::probes_with(prelude, &probes, 10), &want) {
            (Err(Res::Panic(m)), _) => Verdict::fail(format!("{e}: panic {m}")),
            (Err(_), Expect::Error) => Verdict::pass(true).class("index-error").class(kind),
            (Ok(v), Expect::Error) => Verdict::fail(format!("{e} must be an error (index out of range) but gives {:?}", v.first())),
            (Err(r), _) => Verdict::fail(format!("{e} should give {want:?} but fails: {}", r.brief().chars().take(150).collect::<String>())),
            (Ok(v), _) => {
                for (i, w) in wants.iter().enumerate() {
                    let g = v.get(i).cloned().flatten();
                    // a probe printing nothing stands for null / an empty unquoted value
                    let g = g.unwrap_or_else(|| "<nothing>".into());
                    if &g != w && !(w == "()" && g == "<nothing>") {
                        return Verdict::fail(format!("`{}` gave {g}, the list model gives {w} (call {e}, expected {want:?})", probes[i]));
                    }
                }
                Verdict::pass(nontrivial).class(kind)
            }
        }
    }
}
