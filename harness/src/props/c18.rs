//! C18 Functions, mixins and content blocks bind arguments correctly.

use crate::engine::{Phase, Prop, Tier, Verdict};
use crate::rs::{self, Opts, Res};
use proptest::prelude::*;
use serde::{Deserialize, Serialize};

pub struct C18;

#[derive(Clone, Debug, Serialize, Deserialize, PartialEq)]
pub enum Dflt {
    Const(String),
    /// the value of an earlier parameter (index)
    Prev(usize),
    /// the variable `$outer` of the definition site
    Outer,
    /// `$<name of a later parameter>`: when the default is evaluated that parameter is not bound yet, so the name
    /// means the global variable of that name at the definition site (value `gl<index into NAMES>`)
    Later(usize),
}

#[derive(Clone, Debug, Serialize, Deserialize, PartialEq)]
pub struct Param {
    /// index into NAMES
    pub name: usize,
    pub default: Option<Dflt>,
}

#[derive(Clone, Debug, Serialize, Deserialize)]
pub enum Case {
    Bind {
        params: Vec<Param>,
        rest: bool,
        positional: Vec<String>,
        /// (name index or 9 = a name that no parameter has, spelled with the other of - and _, value)
        named: Vec<(usize, bool, String)>,
        list_splat: Option<Vec<String>>,
        map_splat: Option<Vec<(usize, String)>>,
        /// 0 function, 1 mixin, 2 content block (`using`), 3 function reached through a forwarding `$args...` wrapper
        kind: u8,
    },
    /// templates for @return order, definition-site visibility and @content scope
    Shape { which: u8, k: u8 },
}

const NAMES: &[&str] = &["a", "b-c", "d_e", "f", "g-h"];
const VALS: &[&str] = &["1", "2", "3", "x", "y", "10px", "null", "true"];

fn norm(n: &str) -> String {
    n.replace('_', "-")
}
fn flip(n: &str) -> String {
    n.chars().map(|c| if c == '-' { '_' } else if c == '_' { '-' } else { c }).collect()
}
fn insp(v: &str) -> String {
    v.trim_start_matches('(').trim_end_matches(')').to_string()
}

fn pname(i: usize) -> String {
    if i == 9 { "zz".to_string() } else { NAMES[i % NAMES.len()].to_string() }
}

/// reference binder: Ok(text the body prints) or Err(())
fn bind(params: &[Param], rest: bool, positional: &[String], named: &[(usize, bool, String)], list_splat: &Option<Vec<String>>, map_splat: &Option<Vec<(usize, String)>>) -> Result<String, ()> {
    let mut p: Vec<String> = positional.to_vec();
    if let Some(l) = list_splat {
        p.extend(l.iter().cloned());
    }
    let mut n: Vec<(String, String)> = vec![];
    for (i, _, v) in named {
        let k = norm(&pname(*i));
        if n.iter().any(|(k2, _)| *k2 == k) {
            return Err(());
        }
        n.push((k, v.clone()));
    }
    if let Some(m) = map_splat {
        for (i, v) in m {
            let k = norm(&pname(*i));
            if n.iter().any(|(k2, _)| *k2 == k) {
                return Err(());
            }
            n.push((k, v.clone()));
        }
    }
    let np = params.len();
    if p.len() > np && !rest {
        return Err(());
    }
    let mut bound: Vec<String> = vec![];
    for (i, prm) in params.iter().enumerate() {
        let key = norm(NAMES[prm.name]);
        if i < p.len() {
            if n.iter().any(|(k, _)| *k == key) {
                return Err(());
            }
            bound.push(insp(&p[i]));
        } else if let Some(pos) = n.iter().position(|(k, _)| *k == key) {
            let (_, v) = n.remove(pos);
            bound.push(insp(&v));
        } else {
            match &prm.default {
                None => return Err(()),
                Some(Dflt::Const(c)) => bound.push(insp(c)),
                Some(Dflt::Prev(j)) => bound.push(bound.get(*j).cloned().ok_or(())?),
                Some(Dflt::Outer) => bound.push("outer-value".into()),
                Some(Dflt::Later(k)) => bound.push(format!("gl{k}")),
            }
        }
    }
    if !n.is_empty() && !rest {
        return Err(());
    }
    let mut out: Vec<String> = params.iter().zip(bound.iter()).map(|(prm, v)| format!("{}={v}", norm(NAMES[prm.name]))).collect();
    if rest {
        let extra: Vec<String> = p.iter().skip(np).map(|v| insp(v)).collect();
        let extra_src: Vec<&String> = p.iter().skip(np).collect();
        let r = match extra.len() {
            0 => "()".to_string(),
            1 => format!("({},)", if extra_src[0].starts_with('(') { extra_src[0].clone() } else { extra[0].clone() }),
            _ => extra_src.iter().map(|v| if v.starts_with('(') { v.to_string() } else { insp(v) }).collect::<Vec<_>>().join(", "),
        };
        out.push(format!("rest={r}"));
        let kw = if n.is_empty() { "()".to_string() } else { format!("({})", n.iter().map(|(k, v)| format!("{k}: {}", if v.starts_with('(') { v.clone() } else { insp(v) })).collect::<Vec<_>>().join(", ")) };
        out.push(format!("kw={kw}"));
    }
    Ok(out.join(";"))
}

fn decl_params(params: &[Param], rest: bool) -> String {
    let mut v: Vec<String> = params
        .iter()
        .map(|p| {
            let n = NAMES[p.name];
            match &p.default {
                None => format!("${n}"),
                Some(Dflt::Const(c)) => format!("${n}: {c}"),
                Some(Dflt::Prev(j)) => format!("${n}: ${}", NAMES[params[*j].name]),
                Some(Dflt::Outer) => format!("${n}: $outer"),
                Some(Dflt::Later(k)) => format!("${n}: ${}", NAMES[*k]),
            }
        })
        .collect();
    if rest {
        v.push("$rest...".into());
    }
    v.join(", ")
}

fn call_args(positional: &[String], named: &[(usize, bool, String)], list_splat: &Option<Vec<String>>, map_splat: &Option<Vec<(usize, String)>>) -> (String, String) {
    let mut pre = String::new();
    let mut v: Vec<String> = positional.to_vec();
    for (i, fl, val) in named {
        let n = pname(*i);
        v.push(format!("${}: {val}", if *fl { flip(&n) } else { n }));
    }
    if let Some(l) = list_splat {
        pre.push_str(&format!("$lst: ({}{});\n", l.join(", "), if l.len() == 1 { "," } else { "" }));
        if l.is_empty() {
            pre = "$lst: ();\n".into();
        }
        v.push("$lst...".into());
    }
    if let Some(m) = map_splat {
        if m.is_empty() {
            pre.push_str("$mp: map.remove((q: 1), q);\n");
        } else {
            pre.push_str(&format!("$mp: ({});\n", m.iter().map(|(i, val)| format!("\"{}\": {val}", pname(*i))).collect::<Vec<_>>().join(", ")));
        }
        v.push("$mp...".into());
    }
    (pre, v.join(", "))
}

fn body_print(params: &[Param], rest: bool) -> String {
    let mut parts: Vec<String> = params.iter().map(|p| format!("{}=#{{inspect(${})}}", norm(NAMES[p.name]), NAMES[p.name])).collect();
    if rest {
        parts.push("rest=#{inspect($rest)}".into());
        parts.push("kw=#{inspect(meta.keywords($rest))}".into());
    }
    format!("\"{}\"", parts.join(";"))
}

fn source(c: &Case) -> (String, Result<String, ()>) {
    match c {
        Case::Bind { params, rest, positional, named, list_splat, map_splat, kind } => {
            let want = bind(params, *rest, positional, named, list_splat, map_splat);
            let (pre, args) = call_args(positional, named, list_splat, map_splat);
            let dp = decl_params(params, *rest);
            let print = body_print(params, *rest);
            // (globals named like the parameters: what a default sees when it names a parameter that is not bound yet)
            let head = "@use \"sass:meta\";\n@use \"sass:map\";\n$outer: outer-value;\n$a: gl0; $b-c: gl1; $d_e: gl2; $f: gl3; $g-h: gl4;\n";
            let src = match kind {
                0 => format!("{head}@function fn({dp}) {{ @return {print}; }}\n{pre}zzq {{ $outer: call-site; p1: fn({args}); }}\n"),
                1 => format!("{head}@mixin mx({dp}) {{ p1: {print}; }}\n{pre}zzq {{ $outer: call-site; @include mx({args}); }}\n"),
                2 => format!("{head}@mixin mx() {{ {pre} @content({args}); }}\nzzq {{ @include mx using ({dp}) {{ p1: {print}; }} }}\n"),
                _ => format!("{head}@function fn({dp}) {{ @return {print}; }}\n@function wrap($args...) {{ @return fn($args...); }}\n{pre}zzq {{ $outer: call-site; p1: wrap({args}); }}\n"),
            };
            // in a content block the default `$outer` is looked up at the include site, which holds the global value too
            (src, want)
        }
        Case::Shape { which, k } => {
            let k = *k as usize;
            match which {
                // first @return reached, under loops and conditions
                0 => {
                    let n = 1 + k % 4;
                    (format!("@function f($n) {{\n  @each $i in 1 2 3 4 5 {{ @if $i == $n {{ @return \"hit#{{$i}}\"; }} }}\n  @return \"none\";\n}}\nzzq {{ p1: f({n}); }}\n"), Ok(format!("hit{n}")))
                }
                1 => {
                    let n = k % 6;
                    (format!("@function f($n) {{\n  @if $n > 3 {{ @return \"big\"; }} @else if $n > 1 {{ @return \"mid\"; }}\n  @for $i from 1 through 3 {{ @if $i > $n {{ @return \"loop#{{$i}}\"; }} }}\n  @return \"end\";\n}}\nzzq {{ p1: f({n}); }}\n"), Ok(match n { 4 | 5 => "big".into(), 2 | 3 => "mid".into(), 1 => "loop2".into(), _ => "loop1".into() }))
                }
                // bodies see their definition site, not the call site
                2 => ("$v: def-site;\n@function f() { @return \"#{$v}\"; }\nzzq { $v: call-site; p1: f(); }\n".into(), Ok("def-site".into())),
                3 => ("$v: def-site;\n@mixin m { p1: \"#{$v}\"; }\nzzq { $v: call-site; @include m; }\n".into(), Ok("def-site".into())),
                4 => ("@function f() { @return \"#{if(variable-exists(w), $w, no-w)}\"; }\nzzq { $w: call-site; p1: f(); }\n".into(), Ok("no-w".into())),
                // @content renders the block in the include-site scope, with `using` parameters bound
                5 => ("@mixin m { $v: mixin-local; @content; }\nzzq { $v: site; @include m { p1: \"#{$v}\"; } }\n".into(), Ok("site".into())),
                6 => (format!("@mixin m($n) {{ $v: mixin-local; @content($n, $n + 1); }}\nzzq {{ $v: site; @include m({k}) using ($x, $y) {{ p1: \"#{{$v}} #{{$x}} #{{$y}}\"; }} }}\n"), Ok(format!("site {k} {}", k + 1))),
                7 => ("@mixin m { q: r; @content; }\nzzq { @include m; p1: \"after\"; }\n".into(), Ok("after".into())),
                8 => ("@mixin inner { i1: a; @content; }\n@mixin outer { @include inner { @content; } }\nzzq { $v: site; @include outer { p1: \"#{$v}\"; } }\n".into(), Ok("site".into())),
                // named arguments with - and _ ; defaults evaluated left to right in the callee
                9 => ("@function f($a-b, $c_d: $a-b + 1, $e: $c_d * 2) { @return \"#{$a-b} #{$c_d} #{$e}\"; }\nzzq { p1: f($a_b: 1) + \"/\" + f(1, $c-d: 5) + \"/\" + f(1, 2, 3); }\n".into(), Ok("1 2 4/1 5 10/1 2 3".into())),
                _ => ("$d: 1;\n@function f($x: $d) { $d: 2; @return \"#{$x} #{$d}\"; }\nzzq { $d: 3; p1: f(); }\n".into(), Ok("1 2".into())),
            }
        }
    }
}

fn cases() -> impl Strategy<Value = Case> {
    let val = || proptest::sample::select(VALS).prop_map(|s| s.to_string());
    let params = proptest::collection::vec((0usize..NAMES.len(), 0u8..7, 0usize..4, proptest::sample::select(VALS)), 0..5).prop_map(|v| {
        let mut out: Vec<Param> = vec![];
        let mut seen_default = false;
        let mut later: Vec<(usize, usize)> = vec![];
        for (name, d, j, c) in v {
            if out.iter().any(|p| norm(NAMES[p.name]) == norm(NAMES[name])) {
                continue;
            }
            let default = match d {
                0 | 1 if !seen_default => None,
                2 if !out.is_empty() => Some(Dflt::Prev(j % out.len())),
                3 => Some(Dflt::Outer),
                5 | 6 => {
                    // resolved below, once the later parameters are known
                    later.push((out.len(), j));
                    Some(Dflt::Const(c.to_string()))
                }
                _ => Some(Dflt::Const(c.to_string())),
            };
            if default.is_some() {
                seen_default = true;
            }
            out.push(Param { name, default });
        }
        for (i, j) in later {
            let after = out.len() - i - 1;
            if after > 0 {
                let k = out[i + 1 + j % after].name;
                out[i].default = Some(Dflt::Later(k));
            }
        }
        out
    });
    let named = proptest::collection::vec((prop_oneof![8 => 0usize..NAMES.len(), 1 => Just(9usize)], any::<bool>(), val()), 0..3);
    let bind = (params, any::<bool>(), proptest::collection::vec(val(), 0..5), named, proptest::option::weighted(0.3, proptest::collection::vec(val(), 0..3)), proptest::option::weighted(0.3, proptest::collection::vec((prop_oneof![8 => 0usize..NAMES.len(), 1 => Just(9usize)], val()), 0..3)), 0u8..4)
        .prop_map(|(params, rest, positional, named, list_splat, map_splat, kind)| {
            // map splat keys distinct, and distinct from the explicitly named arguments (what a splat does with a
            // name that is also passed explicitly is not part of the statement)
            let map_splat = map_splat.map(|m| {
                let mut o: Vec<(usize, String)> = vec![];
                for (k, v) in m {
                    if !o.iter().any(|(k2, _)| norm(&pname(*k2)) == norm(&pname(k))) && !named.iter().any(|(k2, _, _)| norm(&pname(*k2)) == norm(&pname(k))) {
                        o.push((k, v));
                    }
                }
                o
            });
            Case::Bind { params, rest, positional, named, list_splat, map_splat, kind }
        });
    prop_oneof![9 => bind, 1 => (0u8..11, 0u8..12).prop_map(|(which, k)| Case::Shape { which, k })]
}

impl Prop for C18 {
    type Case = Case;
    const ID: &'static str = "C18";
    fn new() -> Self {
        C18
    }
    fn rule(&self) -> String {
        "declarations with 0..4 parameters named a, b-c, d_e, f, g-h, defaults that are constants, an earlier parameter, the name of a later parameter (which then means the global of that name) or a variable of the definition site, optional rest parameter; calls mixing 0..4 positional arguments, 0..2 named arguments (spelled with - or _, sometimes a name no parameter has), a list splat and a map splat; through a function, a mixin, a content block (`@content(args)` into `using (params)`) and a function reached through a forwarding `$args...` wrapper; erroneous calls (too many, unknown, duplicate, missing) arise from the same generator. Plus 11 parameterised templates for the first @return reached, definition-site visibility, @content scope/`using`/absent block/nested content and left-to-right defaults. Oracle: a reference binder predicts the printed value of every parameter, the rest list and meta.keywords, or that the call is an error. Non-trivial: a call with two passing styles, a default that depends on a parameter, or an error case; distinct by case".into()
    }
    fn phases(&self, tier: Tier) -> Vec<Phase<Case>> {
        vec![Phase::random("calls", cases(), tier.pick(40_000, 2_000_000))]
    }
    fn render(&self, c: &Case) -> serde_json::Value {
        let (src, want) = source(c);
        serde_json::json!({"src": src, "expected": format!("{want:?}")})
    }
    fn check(&self, c: &Case) -> Verdict {
        let (src, want) = source(c);
        let r = rs::compile(src.as_bytes(), &Opts::default());
        let nontrivial = match c {
            Case::Bind { positional, named, list_splat, map_splat, params, .. } => want.is_err() || [!positional.is_empty(), !named.is_empty(), list_splat.is_some(), map_splat.is_some()].iter().filter(|b| **b).count() >= 2 || params.iter().any(|p| matches!(p.default, Some(Dflt::Prev(_)) | Some(Dflt::Later(_)))),
            Case::Shape { .. } => true,
        };
        match (want, r) {
            (_, Res::Panic(m)) => Verdict::fail(format!("panic: {m}\n{src}")),
            (Err(()), Res::Err { .. }) => Verdict::pass(nontrivial).class("error-required"),
            (Err(()), Res::Ok(o)) => Verdict::fail(format!("the call must be an error (too many / unknown / duplicate / missing argument) but compiles to {:?}\n{src}", String::from_utf8_lossy(&o))),
            (Ok(w), Res::Err { text, .. }) => Verdict::fail(format!("expected {w:?} but the compilation fails: {}\n{src}", text.lines().next().unwrap_or(""))),
            (Ok(w), Res::Ok(o)) => {
                let out = String::from_utf8_lossy(&o).to_string();
                let p1 = out.lines().find_map(|l| l.trim().strip_prefix("p1: ")).map(|s| s.trim_end_matches(';').trim_matches('"').to_string());
                if p1.as_deref() == Some(w.as_str()) {
                    Verdict::pass(nontrivial).class(match c { Case::Bind { kind, .. } => format!("bind-kind-{kind}"), Case::Shape { .. } => "shape".into() })
                } else {
                    Verdict::fail(format!("bound values {p1:?}, the reference binder gives {w:?}\n{src}"))
                }
            }
        }
    }
}
