//! C23 is-superselector is a preorder with the expected monotonicity.

use crate::engine::{Phase, Prop, Tier, Verdict};
use crate::gen::one_of;
use crate::rs::{self, Res};
use proptest::prelude::*;
use serde::{Deserialize, Serialize};

pub struct C23;

/// a complex selector: compounds and the combinators between them (' ', '>', '+', '~')
#[derive(Clone, Debug, Serialize, Deserialize, PartialEq)]
pub struct Cx {
    pub comps: Vec<String>,
    pub combs: Vec<char>,
}

#[derive(Clone, Debug, Serialize, Deserialize, PartialEq)]
pub enum Op {
    /// add a simple selector (class, attribute, pseudo-class; never a type, an id or a pseudo-element) to compound i
    Add(usize, String),
    /// put an ancestor (' ') or parent ('>') in front
    Prepend(String, char),
    /// insert a compound at descendant combinator i: `a b` -> `a z b` / `a z > b`
    Insert(usize, String, char),
}

#[derive(Clone, Debug, Serialize, Deserialize)]
pub enum Case {
    /// list, index of the member that is specialised, two rounds of specialisation
    Chain { list: Vec<Cx>, pick: usize, ops1: Vec<Op>, ops2: Vec<Op> },
    /// random triple for transitivity
    Triple { a: Vec<Cx>, b: Vec<Cx>, c: Vec<Cx> },
}

pub fn show(c: &Cx) -> String {
    let mut s = String::new();
    for (i, comp) in c.comps.iter().enumerate() {
        if i > 0 {
            match c.combs[i - 1] {
                ' ' => s.push(' '),
                k => {
                    s.push(' ');
                    s.push(k);
                    s.push(' ');
                }
            }
        }
        s.push_str(comp);
    }
    s
}
pub fn show_list(l: &[Cx]) -> String {
    l.iter().map(show).collect::<Vec<_>>().join(", ")
}

fn apply(c: &Cx, ops: &[Op]) -> Cx {
    let mut c = c.clone();
    for op in ops {
        match op {
            Op::Add(i, s) => {
                let i = i % c.comps.len();
                let comp = &mut c.comps[i];
                // keep a pseudo-element last
                if let Some(p) = comp.find("::") {
                    comp.insert_str(p, s);
                } else {
                    comp.push_str(s);
                }
            }
            Op::Prepend(s, k) => {
                c.comps.insert(0, s.clone());
                c.combs.insert(0, *k);
            }
            Op::Insert(i, s, k) => {
                let desc: Vec<usize> = c.combs.iter().enumerate().filter(|(_, k)| **k == ' ').map(|(i, _)| i).collect();
                if desc.is_empty() {
                    c.comps.insert(0, s.clone());
                    c.combs.insert(0, ' ');
                } else {
                    let at = desc[i % desc.len()];
                    // comps[at] <desc> comps[at+1]  ->  comps[at] <desc> s <k> comps[at+1]
                    c.comps.insert(at + 1, s.clone());
                    c.combs.insert(at + 1, *k);
                }
            }
        }
    }
    c
}

fn compound() -> BoxedStrategy<String> {
    (
        prop_oneof![3 => Just(""), 2 => Just("a"), 1 => Just("div"), 1 => Just("*")],
        proptest::option::weighted(0.2, one_of(&["#i", "#j"])),
        proptest::collection::vec(one_of(&[".b", ".c", ".d", ".x", ".y", "[k]", "[k=v]", ":hover", ":focus", ":nth-child(2n+1)", ":not(.n)", ":is(.b, .m)", ":not(.b .q)", ":has(> .h)"]), 0..3),
        proptest::option::weighted(0.1, one_of(&["::before", "::after"])),
    )
        .prop_map(|(t, id, subs, pe)| {
            let mut s = String::from(t);
            if let Some(i) = id {
                s.push_str(&i);
            }
            let mut subs = subs;
            subs.sort();
            subs.dedup();
            for x in subs {
                s.push_str(&x);
            }
            if let Some(p) = pe {
                s.push_str(&p);
            }
            if s.is_empty() { ".b".into() } else { s }
        })
        .boxed()
}

fn addition() -> BoxedStrategy<String> {
    one_of(&[".b", ".c", ".e", ".x", "[k]", "[z]", ":hover", ":active", ":not(.w)", ":first-child"])
}

pub fn complex() -> BoxedStrategy<Cx> {
    (proptest::collection::vec(compound(), 1..4), proptest::collection::vec(proptest::sample::select(&[' ', ' ', '>', '+', '~'][..]), 3)).prop_map(|(comps, mut combs)| {
        combs.truncate(comps.len() - 1);
        Cx { comps, combs }
    })
    .boxed()
}

fn op() -> BoxedStrategy<Op> {
    prop_oneof![
        4 => (0usize..4, addition()).prop_map(|(i, s)| Op::Add(i, s)),
        2 => (compound(), proptest::sample::select(&[' ', '>'][..])).prop_map(|(s, k)| Op::Prepend(s, k)),
        3 => (0usize..4, compound(), proptest::sample::select(&[' ', ' ', '>', '+', '~'][..])).prop_map(|(i, s, k)| Op::Insert(i, s, k)),
    ]
    .boxed()
}

fn cases() -> impl Strategy<Value = Case> {
    let list = || proptest::collection::vec(complex(), 1..4);
    prop_oneof![
        4 => (list(), 0usize..3, proptest::collection::vec(op(), 1..4), proptest::collection::vec(op(), 0..4)).prop_map(|(list, pick, ops1, ops2)| Case::Chain { list, pick, ops1, ops2 }),
        1 => (list(), list(), list()).prop_map(|(a, b, c)| Case::Triple { a, b, c }),
        // related triples: b and c are specialisations of members of a
        2 => (list(), proptest::collection::vec(op(), 0..3), proptest::collection::vec(op(), 0..3), any::<usize>()).prop_map(|(a, o1, o2, k)| {
            let m = a[k % a.len()].clone();
            let b = vec![apply(&m, &o1)];
            let c = vec![apply(&b[0], &o2)];
            Case::Triple { a, b, c }
        }),
    ]
}

fn sup(a: &str, b: &str) -> String {
    format!("selector.is-superselector(\"{a}\", \"{b}\")")
}

impl Prop for C23 {
    type Case = Case;
    const ID: &'static str = "C23";
    fn new() -> Self {
        C23
    }
    fn rule(&self) -> String {
        "selector lists of 1..3 complex selectors of 1..3 compounds (type, universal, id, classes, attributes, pseudo-classes, :not/:is/:has with selector arguments, sometimes a pseudo-element) joined by all combinators. Chains: a member l of a list L is specialised twice (b from l, c from b) by 1..3 steps that add a class/attribute/pseudo-class to a compound, put an ancestor or parent in front, or insert a compound at a descendant combinator; required: sup(l,l), sup(L,l), sup(l,b), sup(b,c), sup(l,c), sup(L,c). Triples (random and related): sup(a,b) and sup(b,c) imply sup(a,c); every list is a superselector of itself. Non-trivial: a selector with >= 2 compounds or a selector pseudo-class; distinct by case".into()
    }
    fn phases(&self, tier: Tier) -> Vec<Phase<Case>> {
        vec![Phase::random("laws", cases(), tier.pick(40_000, 2_000_000))]
    }
    fn render(&self, c: &Case) -> serde_json::Value {
        match c {
            Case::Chain { list, pick, ops1, ops2 } => {
                let l = &list[pick % list.len()];
                let b = apply(l, ops1);
                let cc = apply(&b, ops2);
                serde_json::json!({"L": show_list(list), "l": show(l), "b": show(&b), "c": show(&cc)})
            }
            Case::Triple { a, b, c } => serde_json::json!({"a": show_list(a), "b": show_list(b), "c": show_list(c)}),
        }
    }
    fn check(&self, c: &Case) -> Verdict {
        let truth = |v: &Option<String>| v.as_deref() == Some("true");
        match c {
            Case::Chain { list, pick, ops1, ops2 } => {
                let l = &list[pick % list.len()];
                let b = apply(l, ops1);
                let cc = apply(&b, ops2);
                let (ll, ls, bs, cs) = (show_list(list), show(l), show(&b), show(&cc));
                let probes = vec![sup(&ls, &ls), sup(&ll, &ls), sup(&ls, &bs), sup(&bs, &cs), sup(&ls, &cs), sup(&ll, &cs), sup(&ll, &ll)];
                let names = ["sup(l,l)", "sup(L,l)", "sup(l,b)", "sup(b,c)", "sup(l,c)", "sup(L,c)", "sup(L,L)"];
                let r = match rs::probes(&probes) {
                    Ok(r) => r,
                    Err(Res::Panic(m)) => return Verdict::fail(format!("panic: {m} for L={ll:?} l={ls:?} b={bs:?} c={cs:?}")),
                    Err(e) => return Verdict::fail(format!("is-superselector fails on valid selectors: {} for L={ll:?} b={bs:?} c={cs:?}", e.brief().chars().take(150).collect::<String>())),
                };
                for (i, v) in r.iter().enumerate() {
                    if !truth(v) {
                        return Verdict::fail(format!("{} is {:?} for L = {ll:?}, l = {ls:?}, b = {bs:?}, c = {cs:?}", names[i], v));
                    }
                }
                Verdict::pass(cc.comps.len() >= 2 || cs.contains('(')).class("chain")
            }
            Case::Triple { a, b, c } => {
                let (a, b, c) = (show_list(a), show_list(b), show_list(c));
                let probes = vec![sup(&a, &b), sup(&b, &c), sup(&a, &c), sup(&a, &a), sup(&b, &b), sup(&c, &c)];
                let r = match rs::probes(&probes) {
                    Ok(r) => r,
                    Err(Res::Panic(m)) => return Verdict::fail(format!("panic: {m} for {a:?} {b:?} {c:?}")),
                    Err(e) => return Verdict::fail(format!("is-superselector fails on valid selectors: {}", e.brief().chars().take(150).collect::<String>())),
                };
                for (i, n) in [(3, &a), (4, &b), (5, &c)] {
                    if !truth(&r[i]) {
                        return Verdict::fail(format!("is-superselector({n:?}, {n:?}) is {:?} (not reflexive)", r[i]));
                    }
                }
                let both = truth(&r[0]) && truth(&r[1]);
                if both && !truth(&r[2]) {
                    return Verdict::fail(format!("not transitive: sup(a,b) and sup(b,c) hold but sup(a,c) is {:?} for a = {a:?}, b = {b:?}, c = {c:?}", r[2]));
                }
                Verdict::pass(both).class_if(both, "transitivity-premise-holds").class("triple")
            }
        }
    }
}
