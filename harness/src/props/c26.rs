//! C26 String functions follow the Unicode code-point model.

use crate::cssread;
use crate::engine::{Phase, Prop, Tier, Verdict};
use crate::rs::{self, Opts, Res};
use proptest::prelude::*;
use serde::{Deserialize, Serialize};

pub struct C26;

#[derive(Clone, Debug, Serialize, Deserialize)]
pub enum Op {
    Length,
    Index(String),
    Insert(String, i32),
    Slice(i32, Option<i32>),
    Upper,
    Lower,
}

#[derive(Clone, Debug, Serialize, Deserialize)]
pub struct Case {
    pub s: String,
    pub quoted: bool,
    pub op: Op,
    pub module_form: bool,
}

const CHARS: &[char] = &['a', 'b', 'c', 'X', 'y', 'Z', 'é', 'ü', 'ß', 'İ', '日', '本', '😀', '🎉', '\u{301}', 'ñ', ' ', '-', '1'];

fn text(max: usize) -> impl Strategy<Value = String> {
    proptest::collection::vec(proptest::sample::select(CHARS), 0..=max).prop_map(|v| {
        let s: String = v.into_iter().collect();
        // no leading/trailing/double blanks (unquoted text is printed raw and trimmed by the reader)
        s.split_whitespace().collect::<Vec<_>>().join(" ")
    })
}

fn lit(s: &str, quoted: bool) -> String {
    if quoted { format!("\"{s}\"") } else { format!("unquote(\"{s}\")") }
}

/// dart-sass `_codepointForIndex`
fn cp_index(i: i64, len: i64, allow_negative: bool) -> i64 {
    if i == 0 {
        0
    } else if i > 0 {
        (i - 1).min(len)
    } else {
        let r = len + i;
        if r < 0 && !allow_negative { 0 } else { r }
    }
}

#[derive(Debug, PartialEq)]
enum Expect {
    Num(i64),
    Null,
    Str(String, bool),
}

fn model(c: &Case) -> Expect {
    let cs: Vec<char> = c.s.chars().collect();
    let len = cs.len() as i64;
    match &c.op {
        Op::Length => Expect::Num(len),
        Op::Index(sub) => {
            let sc: Vec<char> = sub.chars().collect();
            if sc.is_empty() {
                return Expect::Num(1);
            }
            match (0..cs.len()).find(|i| cs[*i..].starts_with(&sc)) {
                Some(i) => Expect::Num(i as i64 + 1),
                None => Expect::Null,
            }
        }
        Op::Insert(x, i) => {
            let mut i = *i as i64;
            if i < 0 {
                i = (len + i + 2).max(0);
            }
            let at = cp_index(i, len, false) as usize;
            let mut out: Vec<char> = cs[..at].to_vec();
            out.extend(x.chars());
            out.extend(&cs[at..]);
            Expect::Str(out.into_iter().collect(), c.quoted)
        }
        Op::Slice(a, b) => {
            let b = b.unwrap_or(-1) as i64;
            if b == 0 {
                return Expect::Str(String::new(), c.quoted);
            }
            let start = cp_index(*a as i64, len, false);
            let mut end = cp_index(b, len, true);
            if end == len {
                end -= 1;
            }
            if end < start {
                return Expect::Str(String::new(), c.quoted);
            }
            Expect::Str(cs[start as usize..=end as usize].iter().collect(), c.quoted)
        }
        Op::Upper => Expect::Str(c.s.chars().map(|x| x.to_ascii_uppercase()).collect(), c.quoted),
        Op::Lower => Expect::Str(c.s.chars().map(|x| x.to_ascii_lowercase()).collect(), c.quoted),
    }
}

fn call(c: &Case) -> String {
    let s = lit(&c.s, c.quoted);
    let (g, m, args) = match &c.op {
        Op::Length => ("str-length", "string.length", s),
        Op::Index(sub) => ("str-index", "string.index", format!("{s}, \"{sub}\"")),
        Op::Insert(x, i) => ("str-insert", "string.insert", format!("{s}, \"{x}\", {i}")),
        Op::Slice(a, Some(b)) => ("str-slice", "string.slice", format!("{s}, {a}, {b}")),
        Op::Slice(a, None) => ("str-slice", "string.slice", format!("{s}, {a}")),
        Op::Upper => ("to-upper-case", "string.to-upper-case", s),
        Op::Lower => ("to-lower-case", "string.to-lower-case", s),
    };
    format!("{}({args})", if c.module_form { m } else { g })
}

fn cases() -> impl Strategy<Value = Case> {
    (text(12), any::<bool>(), any::<bool>(), 0u8..6, text(3), -15i32..=15, proptest::option::of(-15i32..=15), any::<usize>()).prop_map(|(s, quoted, module_form, k, x, i, j, pick)| {
        let len = s.chars().count() as i32;
        // indices concentrated in [-len-2, len+2]
        let near = |v: i32| -> i32 { let span = 2 * (len + 2) + 1; (v.rem_euclid(span)) - (len + 2) };
        let op = match k {
            0 => Op::Length,
            1 => {
                // a substring of s (often), or another short text
                let cs: Vec<char> = s.chars().collect();
                if !cs.is_empty() && pick % 3 != 0 {
                    let a = pick % cs.len();
                    let b = (a + 1 + (pick / 7) % 3).min(cs.len());
                    Op::Index(cs[a..b].iter().collect::<String>().trim().to_string())
                } else {
                    Op::Index(x.clone())
                }
            }
            2 => Op::Insert(if x.is_empty() { "Q".into() } else { x.clone() }, near(i)),
            3 => Op::Slice(near(i), j.map(near)),
            4 => Op::Upper,
            _ => Op::Lower,
        };
        Case { s, quoted, op, module_form }
    })
}

/// all indices for a few fixed strings (exhaustive in [-len-2, len+2] for one- and two-index calls)
fn enumerated() -> Vec<Case> {
    let mut v = vec![];
    for s in ["", "a", "abc", "aé日😀b", "e\u{301}x", "😀😀"] {
        let len = s.chars().count() as i32;
        for quoted in [true, false] {
            for i in -(len + 2)..=(len + 2) {
                v.push(Case { s: s.into(), quoted, op: Op::Insert("Q".into(), i), module_form: i % 2 == 0 });
                v.push(Case { s: s.into(), quoted, op: Op::Slice(i, None), module_form: i % 2 != 0 });
                for j in -(len + 2)..=(len + 2) {
                    v.push(Case { s: s.into(), quoted, op: Op::Slice(i, Some(j)), module_form: (i + j) % 2 == 0 });
                }
            }
        }
    }
    v
}

impl Prop for C26 {
    type Case = Case;
    const ID: &'static str = "C26";
    fn new() -> Self {
        C26
    }
    fn rule(&self) -> String {
        "strings of 0..12 code points over ASCII letters (both cases), multi-byte letters (é ü ß İ ñ), CJK, astral emoji, a combining accent, blank, - and a digit, written raw, quoted or unquoted; length, index (substrings of the string and other texts, also empty), insert and slice with every index in [-len-2, len+2] (exhaustive over six fixed strings for one- and two-index calls, random otherwise), to-upper-case / to-lower-case; global and module names. Oracle: reference model on Vec<char> following the dart-sass index rules; results compared as decoded text plus quotedness (an empty unquoted result must print nothing). Non-trivial: a string with a non-ASCII character, or an index outside 1..len; distinct by case".into()
    }
    fn phases(&self, tier: Tier) -> Vec<Phase<Case>> {
        vec![Phase::enumerate("all-indices", enumerated().into_iter()), Phase::random("random", cases(), tier.pick(30_000, 1_500_000))]
    }
    fn check(&self, c: &Case) -> Verdict {
        let want = model(c);
        let expr = call(c);
        let src = format!("@use \"sass:string\";\nzzq {{ p0: {expr}; zend: 0 }}\n");
        let out = match rs::compile(src.as_bytes(), &Opts::default()) {
            Res::Ok(o) => String::from_utf8_lossy(&o).to_string(),
            Res::Panic(m) => return Verdict::fail(format!("{expr}: panic {m}")),
            Res::Err { text, .. } => {
                let msg = format!("{expr} should give {want:?} but fails: {}", text.lines().next().unwrap_or(""));
                return if matches!(c.op, Op::Slice(..)) && want == Expect::Str(String::new(), c.quoted) { Verdict::known("C26-slice-empty-range-error", msg) } else { Verdict::fail(msg) };
            }
        };
        let body = cssread::strip_marker(&out);
        let got: Option<String> = body.split("  p0: ").nth(1).and_then(|r| r.split(";\n  zend: 0;").next()).map(|s| s.to_string());
        let nontrivial = !c.s.is_ascii() || match &c.op { Op::Insert(_, i) | Op::Slice(i, _) => *i < 1 || *i > c.s.chars().count() as i32, _ => false };
        let ok = match (&want, &got) {
            (Expect::Num(n), Some(g)) => g == &n.to_string(),
            (Expect::Null, None) => true,
            (Expect::Str(t, true), Some(g)) => cssread::single_string(g).as_deref() == Some(t.as_str()),
            (Expect::Str(t, false), None) => t.is_empty(),
            (Expect::Str(t, false), Some(g)) => g == t && !(g.starts_with('"') && g.ends_with('"') && g.len() >= 2),
            _ => false,
        };
        if ok {
            Verdict::pass(nontrivial).class(match c.op { Op::Length => "length", Op::Index(_) => "index", Op::Insert(..) => "insert", Op::Slice(..) => "slice", _ => "case" })
        } else {
            Verdict::fail(format!("{expr} printed {got:?}, the code-point model gives {want:?}"))
        }
    }
}
