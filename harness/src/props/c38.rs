//! C38 Library entry points agree with each other.

use crate::corpus::corpus_live_str;
use crate::cssread;
use crate::engine::{Phase, Prop, Tier, Verdict};
use crate::gen::prog::{self, Cfg};
use crate::gen::{one_of, val};
use crate::rs::{self, Opts, Res, St};
use proptest::prelude::*;
use rsass::input::{FsContext, SourceFile, SourceName};
use rsass::output::Format;
use serde::{Deserialize, Serialize};

pub struct C38;

#[derive(Clone, Debug, Serialize, Deserialize)]
pub enum Case {
    /// compile_scss / compile_scss_path vs contexts, for a stylesheet that loads nothing
    Sheet { text: String, compressed: bool, precision: usize },
    /// compile_value vs the declaration `x { y: v }`
    Value { text: String, compressed: bool, precision: usize },
}

fn loads_something(t: &str) -> bool {
    // (built-in modules are not loads)
    let stripped = t.replace("\"sass:", "").replace("'sass:", "");
    // (and non-deterministic functions make two runs differ)
    stripped.contains("unique-id") || stripped.contains("random") || stripped.contains("@import") || stripped.contains("@use") || stripped.contains("@forward") || stripped.contains("load-css")
}

fn value_text() -> BoxedStrategy<String> {
    prop_oneof![
        4 => val::safe(),
        3 => val::expr(),
        3 => one_of(&[
            "#{0.123456789012}", "\"a#{0.123456789}b\"", "a#{1.0000001}b", "#{1 / 3 + 0}", "#{(1/3)}x", "percentage(0.123456789)", "\"#{percentage(0.3333333333)}\"", "1/3", "(1/3)", "10px + 4px", "10px 4px",
            "rgba(1, 2, 3, 0.123456789)", "#{rgba(1, 2, 3, 0.123456789)}", "\"#{#ff0000}\"", "#{red}", "#ff0000", "hsl(10.123456, 20%, 30%)", "url(a.png)", "a, b, c", "[a b]", "(a, b)", "\"q\"", "unquote(\"q\")", "1.23456789e-3",
            "#{1.5px * 1.23456}", "str-insert(\"ab\", \"#{0.66666666}\", 2)", "1 + 2 #{0.5555555555} 3", "inspect(0.123456789)", "\"\"", "a b, c d", "a / b", "list.slash(1, 2)", "calc(1px + 2%)", "calc(0.123456789px + 0.3333333333%)", "min(1px, 2em)",
            "unquote(\"a\\a  b\")", "unquote(\"a\\a\\a   b  c\")", "1px #{\"solid\\a   \"}red", "unquote(\"x\\a\")", "unquote(\"\\a  y\")", "if(true, 0.987654321, b)", "-webkit-foo(0.123456789)", "foo(#{0.123456789})", "!important", "a !important", "0.5", ".5em", "1e3", "+1", "-a", "not a", "a and b", "1 < 2", "\"a\" + b", "a + \"b\"", "1px*2", "6/2*1",
        ]),
    ]
    .boxed()
}

fn sheet_text() -> BoxedStrategy<String> {
    prop_oneof![
        3 => prog::sheet(Cfg { wild: false, safe: true, ..Cfg::default() }),
        2 => prog::sheet(Cfg { wild: false, ..Cfg::default() }),
        1 => prog::sheet(Cfg::default()),
        1 => one_of(&["a { b: #{0.123456789}; c: 1/3; d: (1/3); e: rgba(1, 2, 3, 0.123456789) }", "@use \"sass:math\"; a { b: math.div(1, 3); c: \"x#{math.div(2, 3)}\" }", "a { b: c", "a { b: $nope }", "", "/* c */", "@charset \"UTF-8\"; a { b: \"\u{e9}\" }"]),
    ]
    .boxed()
}

fn scratch_dir() -> std::path::PathBuf {
    // below the harness's target directory (rebuilt at will), one per process
    let mut p = std::env::current_exe().ok().and_then(|e| e.parent().map(|d| d.to_path_buf())).unwrap_or_else(|| std::path::PathBuf::from("."));
    p.push("scratch-c38");
    p.push(format!("p{}", std::process::id()));
    p
}

fn same(a: &Res, b: &Res) -> bool {
    match (a, b) {
        (Res::Ok(x), Res::Ok(y)) => x == y,
        (Res::Err { kind: k1, .. }, Res::Err { kind: k2, .. }) => k1 == k2,
        _ => false,
    }
}

impl Prop for C38 {
    type Case = Case;
    const ID: &'static str = "C38";
    fn new() -> Self {
        C38
    }
    fn rule(&self) -> String {
        "Sheet cases: a stylesheet that loads no file (grammar-generated safe/tame/wild programs, some hand-written ones with precision-sensitive values and errors, and the live sass-spec corpus inputs), a style and a precision in 0..=12; compile_scss(bytes, f) must equal FsContext::for_cwd().with_format(f).transform(scss_bytes(bytes, root(\"-\"))) and, as a third party, the same source in an in-memory loader context; compile_scss_path(p, f) of a scratch file holding the bytes must equal them too (Ok bytes equal, or all errors of the same kind). Value cases: a value expression (generated expressions, plus hand-written ones with interpolated numbers, colours, divisions, calc, strings), style and precision; when `x { y: v }` compiles and emits the declaration, compile_value(v, f) must be Ok with exactly the declaration's value text. Non-trivial: Ok output that is not empty and, for values, a precision other than 10 or compressed style; distinct by case".into()
    }
    fn assumptions(&self) -> Vec<String> {
        vec![
            "values whose declaration is omitted or an error (null, empty list, maps, invalid units) values containing `&` and calls of unique-id()/random() are outside the domain of the compile_value clause".into(),
            "error texts are not compared (they carry the source name), only the error kind".into(),
        ]
    }
    fn prepare(&self, _tier: Tier) {
        // drop what earlier runs left behind
        if let Some(root) = scratch_dir().parent() {
            let _ = std::fs::remove_dir_all(root);
        }
        let _ = std::fs::create_dir_all(scratch_dir());
    }
    fn phases(&self, tier: Tier) -> Vec<Phase<Case>> {
        let fmt = || (any::<bool>(), prop_oneof![2 => Just(10usize), 3 => 0usize..=12]);
        let corpus: Vec<Case> = corpus_live_str()
            .iter()
            .filter(|t| !loads_something(t))
            .enumerate()
            .map(|(i, t)| Case::Sheet { text: t.clone(), compressed: i % 2 == 1, precision: [10, 5, 0, 12, 3][i % 5] })
            .collect();
        let corpus: Vec<Case> = match tier {
            Tier::Quick => corpus.into_iter().step_by(3).collect(),
            Tier::Thorough => corpus,
        };
        vec![
            Phase::random("values", (value_text(), fmt()).prop_map(|(text, (compressed, precision))| Case::Value { text, compressed, precision }), tier.pick(40_000, 2_000_000)),
            Phase::random("sheets", (sheet_text(), fmt()).prop_filter("no loads", |(t, _)| !loads_something(t)).prop_map(|(text, (compressed, precision))| Case::Sheet { text, compressed, precision }), tier.pick(15_000, 600_000)),
            Phase::list("corpus", corpus),
        ]
    }
    fn check(&self, c: &Case) -> Verdict {
        match c {
            Case::Sheet { text, compressed, precision } => {
                let o = Opts { style: if *compressed { St::Compressed } else { St::Expanded }, precision: *precision, ..Default::default() };
                let f: Format = o.format();
                let bytes = text.as_bytes().to_vec();
                let b1 = bytes.clone();
                let lib = rs::run(move || rsass::compile_scss(&b1, f));
                let b2 = bytes.clone();
                let ctx = rs::run(move || FsContext::for_cwd().with_format(f).transform(SourceFile::scss_bytes(b2, SourceName::root("-"))));
                let mem = rs::compile(&bytes, &o);
                if let Res::Panic(m) = &lib {
                    // panics are C01's; the entry points must still agree
                    if !matches!(ctx, Res::Panic(_)) {
                        return Verdict::fail(format!("compile_scss panics ({m}) but the context does not: {}", ctx.brief()));
                    }
                    return Verdict::pass(false).class("panic-in-all");
                }
                if !same(&lib, &ctx) {
                    return Verdict::fail(format!("compile_scss gives {} but FsContext::for_cwd().with_format(f).transform(..) gives {} (compressed={compressed}, precision={precision}) for {text:?}", lib.brief(), ctx.brief()));
                }
                if !same(&lib, &mem) {
                    return Verdict::fail(format!("compile_scss gives {} but an in-memory context with the same format gives {} (compressed={compressed}, precision={precision}) for {text:?}", lib.brief(), mem.brief()));
                }
                // compile_scss_path on a scratch file
                let path = scratch_dir().join(format!("in-{:?}.scss", std::thread::current().id()).replace(['(', ')'], ""));
                let _ = std::fs::create_dir_all(scratch_dir());
                if std::fs::write(&path, &bytes).is_err() {
                    return Verdict::discard("resource: cannot write scratch file");
                }
                let p2 = path.clone();
                let by_path = rs::run(move || rsass::compile_scss_path(&p2, f));
                let _ = std::fs::remove_file(&path);
                if !same(&lib, &by_path) {
                    return Verdict::fail(format!("compile_scss gives {} but compile_scss_path on a file with the same bytes gives {} (compressed={compressed}, precision={precision}) for {text:?}", lib.brief(), by_path.brief()));
                }
                let ok = matches!(&lib, Res::Ok(b) if !b.is_empty());
                Verdict::pass(ok).class_if(!ok, "error-or-empty").class_if(*precision != 10, "precision-not-10").class_if(*compressed, "compressed")
            }
            Case::Value { text, compressed, precision } => {
                if text.contains('&') || text.contains("unique-id") || text.contains("random") {
                    return Verdict::pass(false).class("outside-domain");
                }
                let o = Opts { style: if *compressed { St::Compressed } else { St::Expanded }, precision: *precision, ..Default::default() };
                let f: Format = o.format();
                let src = format!("x {{ y: {text} }}\n");
                let decl = match rs::compile(src.as_bytes(), &o) {
                    Res::Ok(b) => String::from_utf8_lossy(&b).to_string(),
                    _ => return Verdict::pass(false).class("outside-domain"),
                };
                let body = cssread::strip_marker(&decl);
                // x {\n  y: V;\n}\n   |   x{y:V}\n
                let value = if *compressed { body.strip_prefix("x{y:").and_then(|r| r.strip_suffix("}\n")) } else { body.strip_prefix("x {\n  y: ").and_then(|r| r.strip_suffix(";\n}\n")) };
                let Some(value) = value else {
                    return Verdict::pass(false).class("outside-domain");
                };
                let t2 = text.clone().into_bytes();
                let got = rs::run(move || rsass::compile_value(&t2, f));
                match &got {
                    Res::Ok(b) if b.as_slice() == value.as_bytes() => {}
                    other => return Verdict::fail(format!("`x {{ y: {text} }}` prints the value as {value:?} but compile_value gives {} (compressed={compressed}, precision={precision})", other.brief())),
                }
                Verdict::pass(*precision != 10 || *compressed).class_if(text.contains("#{"), "interpolation")
            }
        }
    }
}
