//! C27 Strings keep their content through escaping and quoting.

use crate::cssread;
use crate::engine::{Phase, Prop, Tier, Verdict};
use crate::rs::{self, Opts, Res};
use proptest::prelude::*;
use serde::{Deserialize, Serialize};

pub struct C27;

/// how one code point is written in the literal
#[derive(Clone, Debug, Serialize, Deserialize, PartialEq)]
pub enum Form {
    Raw,
    /// backslash and the character itself
    Backslash,
    /// hex escape with this many leading zeros (total digits capped at 6), terminated by a space or not
    Hex { zeros: u8, space: bool, upper: bool },
}

#[derive(Clone, Debug, Serialize, Deserialize)]
pub struct Case {
    /// intended code points and how each is written
    pub chars: Vec<(char, Form)>,
    /// positions (index into chars, before that char) where a line continuation (backslash newline) is inserted
    pub continuations: Vec<usize>,
    pub single_quotes: bool,
}

const POOL: &[char] = &[
    'a', 'b', 'f', 'A', 'F', 'g', 'z', 'Z', '0', '9', '1', ' ', ' ', '-', '_', '!', '#', '{', '}', '(', ')', ';', ':', '/', '*', '@', '$', '%', '"', '\'', '\\', '\n', '\r', '\t', '\u{c}', '\u{1}', '\u{8}', '\u{b}', '\u{e}', '\u{1f}', '\u{7f}', '\u{80}', '\u{9f}',
    '\u{a0}', 'é', 'ß', '日', '\u{301}', '\u{200b}', '\u{2028}', '\u{feff}', '\u{e000}', '\u{f8ff}', '\u{fffd}', '\u{fffe}', '\u{ffff}', '😀', '\u{1f1e9}', '\u{f0000}', '\u{10fffd}', '\u{10ffff}', '\u{e0001}',
];

fn is_hex(c: char) -> bool {
    c.is_ascii_hexdigit()
}
fn is_nl(c: char) -> bool {
    matches!(c, '\n' | '\r' | '\u{c}')
}

impl Case {
    /// the forms actually used: a form that cannot denote the character in that place is replaced by a hex escape
    fn literal(&self) -> String {
        let q = if self.single_quotes { '\'' } else { '"' };
        let mut s = String::new();
        s.push(q);
        for (i, (c, f)) in self.chars.iter().enumerate() {
            if self.continuations.contains(&i) {
                s.push_str("\\\n");
            }
            let next = self.chars.get(i + 1).map(|x| x.0);
            // is the next thing written raw and would it extend a hex escape?
            let next_raw_extends = match (next, self.chars.get(i + 1).map(|x| &x.1)) {
                (Some(n), Some(Form::Raw)) => is_hex(n) || n == ' ' || n == '\t',
                // the closing quote does not extend it; an escape starts with a backslash; a continuation too
                _ => false,
            } && !self.continuations.contains(&(i + 1));
            let form = match f {
                Form::Raw if *c == q || *c == '\\' || is_nl(*c) || (*c == '#' && next == Some('{')) => Form::Hex { zeros: 0, space: true, upper: false },
                Form::Backslash if is_hex(*c) || is_nl(*c) => Form::Hex { zeros: 0, space: true, upper: false },
                f => f.clone(),
            };
            match form {
                Form::Raw => s.push(*c),
                Form::Backslash => {
                    s.push('\\');
                    s.push(*c);
                }
                Form::Hex { zeros, space, upper } => {
                    let digits = format!("{:x}", *c as u32);
                    let pad = (zeros as usize).min(6 - digits.len());
                    let mut h = "0".repeat(pad);
                    h.push_str(&digits);
                    if upper {
                        h = h.to_ascii_uppercase();
                    }
                    s.push('\\');
                    s.push_str(&h);
                    // a white space after the escape is always consumed; a hex digit only extends a short escape
                    let next_is_ws = next_raw_extends && matches!(next, Some(' ') | Some('\t'));
                    if space || (h.len() < 6 && next_raw_extends) || next_is_ws {
                        s.push(' ');
                    }
                }
            }
        }
        if self.continuations.contains(&self.chars.len()) {
            s.push_str("\\\n");
        }
        s.push(q);
        s
    }
    fn content(&self) -> String {
        self.chars.iter().map(|x| x.0).collect()
    }
    fn has_backslash_in_source(&self) -> bool {
        self.literal().contains('\\')
    }
}

fn form() -> BoxedStrategy<Form> {
    prop_oneof![
        6 => Just(Form::Raw),
        2 => Just(Form::Backslash),
        3 => (0u8..5, any::<bool>(), any::<bool>()).prop_map(|(zeros, space, upper)| Form::Hex { zeros, space, upper }),
    ]
    .boxed()
}

fn cases() -> impl Strategy<Value = Case> {
    let ch = prop_oneof![
        6 => proptest::sample::select(POOL),
        2 => proptest::char::range('\u{1}', '\u{10ffff}'),
        1 => proptest::char::range('\u{1}', '\u{ff}'),
    ];
    prop_oneof![
        // no escapes at all
        3 => (proptest::collection::vec((ch.clone(), Just(Form::Raw)), 0..8), any::<bool>()).prop_map(|(chars, single_quotes)| Case { chars, continuations: vec![], single_quotes }),
        5 => (proptest::collection::vec((ch.clone(), form()), 0..8), proptest::collection::vec(0usize..9, 0..2), any::<bool>(), proptest::bool::weighted(0.2)).prop_map(|(chars, cont, single_quotes, with_cont)| Case { chars, continuations: if with_cont { cont } else { vec![] }, single_quotes }),
        // every character as a hex escape
        2 => (proptest::collection::vec((ch, (0u8..5, any::<bool>(), any::<bool>()).prop_map(|(zeros, space, upper)| Form::Hex { zeros, space, upper })), 1..6), any::<bool>()).prop_map(|(chars, single_quotes)| Case { chars, continuations: vec![], single_quotes }),
    ]
}

fn classify(c: char) -> &'static str {
    match c {
        '"' | '\'' => "quote",
        '\\' => "backslash",
        '\n' | '\r' | '\u{c}' => "newline",
        c if (c as u32) < 0x20 || c as u32 == 0x7f => "control",
        c if (0xe000..=0xf8ff).contains(&(c as u32)) || (c as u32) >= 0xf0000 => "private-use",
        c if (c as u32) > 0xffff => "astral",
        c if !c.is_ascii() => "non-ascii",
        _ => "ascii",
    }
}

impl Prop for C27 {
    type Case = Case;
    const ID: &'static str = "C27";
    fn new() -> Self {
        C27
    }
    fn rule(&self) -> String {
        "strings of 0..7 code points drawn from a pool of quotes, backslash, newline/CR/FF, tabs and other controls, DEL, C1 controls, NBSP, combining marks, zero-width and line-separator characters, BOM, private-use (BMP and planes 15/16), non-characters, astral characters, plus uniformly random scalar values; each code point written raw, as backslash+char, or as a hex escape (0..4 leading zeros, lower or upper case, with or without the terminating space); optional line continuations; either quote style; three sub-populations: no escapes at all, mixed, all-hex. Oracle (intended content known by construction): (1) the emitted token of `b: <literal>` decodes (harness CSS reader) to the content, in expanded and compressed style; (2) string.length(<literal>) is the number of code points; (3) string.quote(string.unquote(<literal>)) == <literal> and emits the content; (4) \"#{<literal>}\" and \"x#{<literal>}y\" emit the content (with x/y around). Non-trivial: a character outside printable ASCII or an escape in the source; distinct by case".into()
    }
    fn assumptions(&self) -> Vec<String> {
        vec!["U+0000 is not generated (CSS replaces it by U+FFFD); surrogate and beyond-range escapes are not generated (they denote no code point)".into()]
    }
    fn phases(&self, tier: Tier) -> Vec<Phase<Case>> {
        vec![Phase::random("strings", cases(), tier.pick(40_000, 2_000_000))]
    }
    fn render(&self, c: &Case) -> serde_json::Value {
        serde_json::json!({"literal": c.literal(), "content_code_points": c.chars.iter().map(|x| format!("U+{:04X}", x.0 as u32)).collect::<Vec<_>>()})
    }
    fn check(&self, c: &Case) -> Verdict {
        let lit = c.literal();
        let want = c.content();
        let n = c.chars.len();
        let src = format!("@use \"sass:string\";\n$s: {lit};\na{{p1:$s;p2:string.length($s);p3:string.quote(string.unquote($s)) == $s;p4:string.quote(string.unquote($s));p5:\"#{{$s}}\";p6:\"x#{{$s}}y\";p7:string.length(\"#{{$s}}\")}}\n");
        let cps = |s: &str| s.chars().map(|c| format!("U+{:04X}", c as u32)).collect::<Vec<_>>().join(" ");
        let mut known: Option<Verdict> = None;
        for (style, o) in [("expanded", Opts::default()), ("compressed", Opts::compressed())] {
            let out = match rs::compile(src.as_bytes(), &o) {
                Res::Ok(b) => String::from_utf8_lossy(&b).to_string(),
                Res::Panic(m) => return Verdict::fail(format!("panic for {lit:?}: {m}")),
                e => return self.region(c, 0, format!("the literal {lit:?} ({}) is rejected: {}", cps(&want), e.brief().chars().take(200).collect::<String>())),
            };
            // token-level reading: `pN` `:` [ws] value tokens up to `;` or `}` (strings are not re-spaced this way)
            let body = cssread::strip_marker(&out);
            let chars: Vec<char> = body.chars().collect();
            let toks = cssread::tokenize_chars(&chars);
            let mut decls: Vec<(String, Vec<cssread::Tok>, String)> = vec![];
            let mut i = 0;
            while i + 1 < toks.len() {
                if let (cssread::Tok::Ident(name), cssread::Tok::Colon) = (&toks[i].tok, &toks[i + 1].tok) {
                    if name.len() == 2 && name.starts_with('p') {
                        let mut j = i + 2;
                        let mut v = vec![];
                        let from = toks[i + 1].end;
                        let mut to = from;
                        while j < toks.len() && !matches!(toks[j].tok, cssread::Tok::Semi | cssread::Tok::Close('}')) {
                            if !matches!(toks[j].tok, cssread::Tok::Ws) {
                                v.push(toks[j].tok.clone());
                            }
                            to = toks[j].end;
                            j += 1;
                        }
                        decls.push((name.clone(), v, chars[from..to].iter().collect::<String>().trim().to_string()));
                        i = j;
                        continue;
                    }
                }
                i += 1;
            }
            let get = |name: &str| decls.iter().find(|d| d.0 == name).map(|d| d.2.clone());
            let get_str = |name: &str| decls.iter().find(|d| d.0 == name).map(|d| (d.1.clone(), d.2.clone()));
            let expect_str = |name: &str, what: &str, want: &str| -> Option<String> {
                match get_str(name) {
                    None => Some(format!("{what}: the declaration is missing")),
                    Some((t, v)) => match t.as_slice() {
                        [cssread::Tok::Str(got)] if got == want => None,
                        [cssread::Tok::Str(got)] => Some(format!("{what} is emitted as {v:?}, which denotes {} instead of {}", cps(got), cps(want))),
                        _ => Some(format!("{what} is emitted as {v:?}, which is not one string token")),
                    },
                }
            };
            let checks: [(u8, Option<String>); 7] = [
                (1, expect_str("p1", "the literal", &want)),
                (
                    2,
                    match get("p2") {
                        Some(v) if v == n.to_string() => None,
                        v => Some(format!("string.length is {v:?} for {n} code points")),
                    },
                ),
                (
                    3,
                    match get("p3") {
                        Some(v) if v == "true" => None,
                        v => Some(format!("string.quote(string.unquote(s)) == s is {v:?}")),
                    },
                ),
                (4, expect_str("p4", "string.quote(string.unquote(s))", &want)),
                (5, expect_str("p5", "\"#{s}\"", &want)),
                (6, expect_str("p6", "\"x#{s}y\"", &format!("x{want}y"))),
                (
                    7,
                    match get("p7") {
                        Some(v) if v == n.to_string() => None,
                        v => Some(format!("string.length(\"#{{s}}\") is {v:?} for {n} code points")),
                    },
                ),
            ];
            // every probe is judged: a failure outside the known regions wins over one inside
            for (probe, msg) in checks {
                if let Some(msg) = msg {
                    let v = self.region(c, probe, format!("{style}: for the literal {lit:?} ({}): {msg}", cps(&want)));
                    match &v.outcome {
                        crate::engine::Outcome::Fail { region: None, .. } => return v,
                        _ => {
                            if known.is_none() {
                                known = Some(v);
                            }
                        }
                    }
                }
            }
        }
        if let Some(v) = known {
            return v;
        }
        let special = c.chars.iter().any(|x| classify(x.0) != "ascii");
        let mut v = Verdict::pass(special || c.has_backslash_in_source());
        let mut seen = std::collections::BTreeSet::new();
        for (ch, f) in &c.chars {
            seen.insert(classify(*ch));
            if matches!(f, Form::Hex { .. }) {
                seen.insert("hex-escape");
            }
        }
        for s in seen {
            v = v.class(s);
        }
        v.class_if(!c.has_backslash_in_source(), "no-backslash-in-source").class_if(!c.continuations.is_empty(), "line-continuation")
    }
}

/// does rsass keep this character as an escape in the string value when the source writes it with a backslash?
/// (parser/strings.rs normalized_escaped_char_q: controls other than tab, `-`, backslash, space)
fn kept_as_escape(c: char) -> bool {
    (c.is_control() && c != '\t') || c == '-' || c == '\\' || c == ' '
}
/// does interpolation into a quoted string write this character as an escape into the new value?
/// (sass/string.rs: everything but alphanumerics, ASCII graphic characters, space, tab and U+FFFD; private-use
/// characters arrive there already written as a hex escape)
fn escaped_by_interpolation(c: char) -> bool {
    !(c.is_alphanumeric() || c.is_ascii_graphic() || c == ' ' || c == '\t' || c == char::REPLACEMENT_CHARACTER)
}

impl C27 {
    /// probe: 0 = compilation, 1..7 = p1..p7
    fn region(&self, c: &Case, probe: u8, msg: String) -> Verdict {
        if std::env::var("C27_SURVEY").is_ok() {
            use std::io::Write;
            if let Ok(mut f) = std::fs::OpenOptions::new().create(true).append(true).open("/tmp/c27-survey.txt") {
                let _ = writeln!(f, "probe={probe} bs={} :: {}", c.has_backslash_in_source(), msg.replace('\n', " "));
            }
        }
        // the characters that the source writes with a backslash (the generator falls back to a hex escape where raw is impossible)
        let lit = c.literal();
        let escaped_in_source: Vec<char> = {
            let q = if c.single_quotes { '\'' } else { '"' };
            c.chars
                .iter()
                .enumerate()
                .filter(|(i, (ch, f))| *f != Form::Raw || *ch == q || *ch == '\\' || is_nl(*ch) || (*ch == '#' && c.chars.get(i + 1).map(|x| x.0) == Some('{')))
                .map(|(_, (ch, _))| *ch)
                .collect()
        };
        let _ = lit;
        // 1. escapes that stay in the value: length and equality see the escape text
        if matches!(probe, 2 | 3 | 7) && escaped_in_source.iter().any(|ch| kept_as_escape(*ch)) {
            return Verdict::known("C27-escape-kept-in-value", msg);
        }
        // 2. interpolation into a quoted string re-escapes
        if matches!(probe, 5 | 6 | 7) && c.chars.iter().any(|x| escaped_by_interpolation(x.0)) {
            return Verdict::known("C27-interpolation-reescapes", msg);
        }
        // 3. unquote/quote round trip of characters that are escapes in the value
        if matches!(probe, 3 | 4) && c.chars.iter().any(|x| kept_as_escape(x.0) || escaped_by_interpolation(x.0)) && c.has_backslash_in_source() {
            return Verdict::known("C27-escape-kept-in-value", msg);
        }
        Verdict::fail(msg)
    }
}
