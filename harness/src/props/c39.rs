//! C39 Loader failures are reported, never absorbed.

use crate::engine::{Phase, Prop, Tier, Verdict};
use crate::rs::{self, normalise_path, Opts, Res};
use proptest::prelude::*;
use rsass::input::{Context, LoadError, Loader, SourceFile, SourceName};
use serde::{Deserialize, Serialize};
use std::collections::{BTreeMap, BTreeSet};
use std::io::Read;
use std::sync::atomic::{AtomicUsize, Ordering};
use std::sync::Arc;

pub struct C39;

/// file 0 is the root; 1..3 are partials, two of them in a sub-directory; 4 is a plain CSS file beside the root
const FILES: &[&str] = &["main.scss", "sub/_p.scss", "sub/_q.scss", "_r.scss", "s.css"];
const STEMS: &[&str] = &["main", "p", "q", "r", "s"];
fn in_sub(i: usize) -> bool {
    i == 1 || i == 2
}

#[derive(Clone, Debug, Serialize, Deserialize, PartialEq)]
pub enum Kind {
    Use,
    Forward,
    Import,
    LoadCss,
}

#[derive(Clone, Debug, Serialize, Deserialize)]
pub struct Load {
    pub kind: Kind,
    /// the loaded file: always a later file, so the graph has no cycle
    pub target: usize,
    pub spelling: usize,
}

#[derive(Clone, Debug, Serialize, Deserialize)]
pub struct Case {
    /// loads of file i (targets > i)
    pub files: Vec<Vec<Load>>,
    /// extra multi-fault plans: (find_file call indices, (open index, fail after n bytes))
    pub plans: Vec<(Vec<usize>, Vec<(usize, usize)>)>,
}

fn url(from: usize, l: &Load) -> String {
    let t = STEMS[l.target];
    if l.target == 4 {
        // the plain css file: with and without the explicit extension (an `@import "s.css"` is a plain CSS import
        // when no such file exists, and a load when it does)
        let opts: Vec<String> = if in_sub(from) { vec![format!("../{t}.css"), format!("{t}.css"), format!("../{t}")] } else { vec![format!("{t}.css"), t.to_string(), format!("./{t}.css")] };
        return opts[l.spelling % opts.len()].clone();
    }
    let opts: Vec<String> = match (in_sub(from), in_sub(l.target)) {
        (true, true) => vec![t.to_string(), format!("./{t}"), format!("_{t}"), format!("sub/{t}"), format!("../sub/{t}")],
        (true, false) => vec![format!("../{t}"), t.to_string(), format!("../_{t}.scss")],
        (false, true) => vec![format!("sub/{t}"), format!("./sub/{t}"), format!("sub/_{t}"), format!("sub/./{t}")],
        (false, false) => vec![t.to_string(), format!("./{t}"), format!("sub/../{t}"), format!("_{t}.scss")],
    };
    opts[l.spelling % opts.len()].clone()
}

impl Case {
    fn source(&self, f: usize) -> String {
        let mut s = String::new();
        let l = &self.files[f];
        // @use first, then @forward, then the others
        let mut ordered: Vec<&Load> = l.iter().filter(|x| x.kind == Kind::Use).collect();
        ordered.extend(l.iter().filter(|x| x.kind == Kind::Forward));
        if l.iter().any(|x| x.kind == Kind::LoadCss) {
            s.push_str("@use \"sass:meta\";\n");
        }
        ordered.extend(l.iter().filter(|x| matches!(x.kind, Kind::Import | Kind::LoadCss)));
        s.push_str(&format!(".before_{} {{ k: v }}\n", STEMS[f]).repeat(usize::from(!l.iter().any(|x| matches!(x.kind, Kind::Use | Kind::Forward)))));
        for (i, ld) in ordered.iter().enumerate() {
            let u = url(f, ld);
            match ld.kind {
                Kind::Use => s.push_str(&format!("@use \"{u}\" as n{i};\n")),
                Kind::Forward => s.push_str(&format!("@forward \"{u}\";\n")),
                Kind::Import => s.push_str(&format!("@import \"{u}\";\n")),
                Kind::LoadCss => s.push_str(&format!("@include meta.load-css(\"{u}\");\n")),
            }
        }
        s.push_str(&format!(".m_{} {{ k: v }}\n", STEMS[f]));
        s
    }
    pub fn sources(&self) -> BTreeMap<String, Vec<u8>> {
        (0..self.files.len()).map(|f| (FILES[f].to_string(), self.source(f).into_bytes())).collect()
    }
}

#[derive(Debug, Default)]
struct Counters {
    finds: AtomicUsize,
    opens: AtomicUsize,
    consumed: AtomicUsize,
}

#[derive(Debug)]
struct FaultLoader {
    files: BTreeMap<String, Vec<u8>>,
    fail_find: BTreeSet<usize>,
    fail_read: BTreeMap<usize, usize>,
    n: Arc<Counters>,
}

struct FaultFile {
    data: std::io::Cursor<Vec<u8>>,
    fail_after: Option<usize>,
    read: usize,
    n: Arc<Counters>,
}

impl Read for FaultFile {
    fn read(&mut self, buf: &mut [u8]) -> std::io::Result<usize> {
        if let Some(limit) = self.fail_after {
            if self.read >= limit {
                self.n.consumed.fetch_add(1, Ordering::SeqCst);
                return Err(std::io::Error::other("injected read failure"));
            }
            let room = (limit - self.read).min(buf.len());
            let k = self.data.read(&mut buf[..room])?;
            self.read += k;
            if k == 0 {
                // end of data before the limit: fail here, so that the fault is always consumed
                self.n.consumed.fetch_add(1, Ordering::SeqCst);
                return Err(std::io::Error::other("injected read failure"));
            }
            return Ok(k);
        }
        self.data.read(buf)
    }
}

impl Loader for FaultLoader {
    type File = FaultFile;
    fn find_file(&self, url: &str) -> Result<Option<FaultFile>, LoadError> {
        let idx = self.n.finds.fetch_add(1, Ordering::SeqCst);
        if self.fail_find.contains(&idx) {
            self.n.consumed.fetch_add(1, Ordering::SeqCst);
            return Err(LoadError::Input(url.to_string(), std::io::Error::other("injected lookup failure")));
        }
        let Some(key) = normalise_path(url) else { return Ok(None) };
        Ok(self.files.get(&key).map(|d| {
            let open = self.n.opens.fetch_add(1, Ordering::SeqCst);
            FaultFile { data: std::io::Cursor::new(d.clone()), fail_after: self.fail_read.get(&open).copied(), read: 0, n: self.n.clone() }
        }))
    }
}

/// (result, find_file calls, files opened, faults consumed)
fn compile(files: &BTreeMap<String, Vec<u8>>, fail_find: &[usize], fail_read: &[(usize, usize)]) -> (Res, usize, usize, usize) {
    let n = Arc::new(Counters::default());
    let loader = FaultLoader { files: files.clone(), fail_find: fail_find.iter().copied().collect(), fail_read: fail_read.iter().copied().collect(), n: n.clone() };
    let src = files["main.scss"].clone();
    let fmt = Opts::default().format();
    let r = rs::run(move || Context::for_loader(loader).with_format(fmt).transform(SourceFile::scss_bytes(src, SourceName::root("main.scss"))));
    (r, n.finds.load(Ordering::SeqCst), n.opens.load(Ordering::SeqCst), n.consumed.load(Ordering::SeqCst))
}

fn cases() -> impl Strategy<Value = Case> {
    let kind = || proptest::sample::select(vec![Kind::Use, Kind::Forward, Kind::Import, Kind::LoadCss]);
    let loads = |from: usize| proptest::collection::vec((kind(), from + 1..5usize, 0usize..5).prop_map(|(kind, target, spelling)| Load { kind, target, spelling }), 0..=3);
    let plans = proptest::collection::vec((proptest::collection::vec(0usize..40, 0..4), proptest::collection::vec((0usize..8, 0usize..60), 0..3)), 0..4);
    (loads(0), loads(1), loads(2), plans).prop_map(|(a, b, c, plans)| Case { files: vec![a, b, c, vec![], vec![]], plans })
}

impl Prop for C39 {
    type Case = Case;
    const ID: &'static str = "C39";
    fn new() -> Self {
        C39
    }
    fn rule(&self) -> String {
        "acyclic graphs of 5 files (root, two partials in sub/, one partial and one plain .css file beside the root, the latter loaded with and without its extension) with 0..3 loads per file of all four kinds (@use, @forward, @import, meta.load-css) and several spellings of each URL (sibling, ./, ../, through the sub-directory, found only by the load-path fallback), compiled through a fault-injecting Loader. Per graph, exhaustively: a failure (Err from find_file) at every single find_file call index of the fault-free run, and a read failure on every opened file, at offset 0 and in the middle of the file; plus 0..3 random plans with several lookup and read failures. Oracle: whenever an injected failure was delivered, the result is an error (no panic, no Ok of any CSS); after every failing run the same sources with a working loader give the fault-free bytes again. Non-trivial: the fault-free run is Ok and a failure was delivered at a lookup index >= 1 or a read of a file other than the first; distinct by case".into()
    }
    fn assumptions(&self) -> Vec<String> {
        vec!["an injected failure that the compilation never reaches (index beyond the calls made) is not a delivered failure; such runs must simply equal the fault-free run".into()]
    }
    fn phases(&self, tier: Tier) -> Vec<Phase<Case>> {
        vec![Phase::random("graphs", cases(), tier.pick(10_000, 400_000))]
    }
    fn render(&self, c: &Case) -> serde_json::Value {
        serde_json::json!({"files": c.sources().into_iter().map(|(k, v)| (k, String::from_utf8_lossy(&v).to_string())).collect::<BTreeMap<_, _>>(), "plans": c.plans})
    }
    fn check(&self, c: &Case) -> Verdict {
        let files = c.sources();
        let (base, finds, opens, _) = compile(&files, &[], &[]);
        if let Res::Panic(m) = &base {
            return Verdict::fail(format!("panic without any fault: {m}"));
        }
        let mut delivered_deep = 0usize;
        let mut runs = 0usize;
        let show = |ff: &[usize], fr: &[(usize, usize)]| format!("lookup failures at call indices {ff:?}, read failures (open index, after bytes) {fr:?}");
        let mut plans: Vec<(Vec<usize>, Vec<(usize, usize)>)> = vec![];
        for i in 0..finds {
            plans.push((vec![i], vec![]));
        }
        for j in 0..opens {
            plans.push((vec![], vec![(j, 0)]));
            plans.push((vec![], vec![(j, 7)]));
            plans.push((vec![], vec![(j, 100_000)]));
        }
        plans.extend(c.plans.iter().cloned());
        for (ff, fr) in &plans {
            let (r, _, _, consumed) = compile(&files, ff, fr);
            runs += 1;
            match (&r, consumed) {
                (Res::Panic(m), _) => return Verdict::fail(format!("panic with {}: {m}", show(ff, fr))),
                (Res::Ok(b), k) if k > 0 => {
                    return Verdict::fail(format!(
                        "{k} injected loader failure(s) were delivered ({}) but the compilation returned Ok({:?}); fault-free result: {}",
                        show(ff, fr),
                        String::from_utf8_lossy(b),
                        base.brief()
                    ));
                }
                (r, 0) => {
                    if !same(r, &base) {
                        return Verdict::fail(format!("no failure was delivered ({}) but the result {} differs from the fault-free {}", show(ff, fr), r.brief(), base.brief()));
                    }
                }
                (Res::Err { .. }, _) => {
                    if ff.iter().any(|i| *i >= 1 && *i < finds) || fr.iter().any(|(j, _)| *j >= 1 && *j < opens) {
                        delivered_deep += 1;
                    }
                }
                _ => {}
            }
            // a later compilation with a working loader is normal again
            let (again, _, _, _) = compile(&files, &[], &[]);
            if !same(&again, &base) {
                return Verdict::fail(format!("after a failing run ({}) a working loader gives {} instead of {}", show(ff, fr), again.brief(), base.brief()));
            }
        }
        let ok = matches!(base, Res::Ok(_));
        Verdict::pass(ok && delivered_deep > 0)
            .class_if(!ok, "fault-free-run-is-error")
            .class(format!("lookups-{}", if finds < 5 { "lt5" } else if finds < 15 { "5to14" } else { "15plus" }))
            .class(format!("runs-{}", if runs < 10 { "lt10" } else if runs < 40 { "10to39" } else { "40plus" }))
    }
}

fn same(a: &Res, b: &Res) -> bool {
    match (a, b) {
        (Res::Ok(x), Res::Ok(y)) => x == y,
        (Res::Err { kind: k1, text: t1 }, Res::Err { kind: k2, text: t2 }) => k1 == k2 && t1 == t2,
        _ => false,
    }
}
