//! Independent CSS reader used by the oracles: a CSS Syntax Level 3 style
//! tokenizer (strings, escapes, comments, url(), numbers, hashes, idents,
//! functions) and a small block-tree reader.  Nothing here calls rsass.

#[derive(Clone, Debug, PartialEq)]
pub enum Tok {
    Ident(String),
    Function(String),
    AtKeyword(String),
    Hash(String),
    /// decoded content
    Str(String),
    BadStr,
    /// decoded content of an unquoted url(...)
    Url(String),
    BadUrl,
    Delim(char),
    /// numeric text, unit ("" = number, "%" = percentage)
    Num(String, String),
    Ws,
    Colon,
    Semi,
    Comma,
    Open(char),
    Close(char),
    Comment(String),
    Cdo,
    Cdc,
}

#[derive(Clone, Debug)]
pub struct Token {
    pub tok: Tok,
    pub start: usize,
    pub end: usize,
}

fn is_name_start(c: char) -> bool {
    c.is_ascii_alphabetic() || c == '_' || !c.is_ascii()
}
fn is_name(c: char) -> bool {
    is_name_start(c) || c.is_ascii_digit() || c == '-'
}

pub struct Lexer<'a> {
    s: &'a [char],
    i: usize,
}

impl<'a> Lexer<'a> {
    fn peek(&self, k: usize) -> Option<char> {
        self.s.get(self.i + k).copied()
    }
    fn valid_escape(&self, k: usize) -> bool {
        self.peek(k) == Some('\\') && !matches!(self.peek(k + 1), Some('\n') | None)
    }
    fn starts_ident(&self) -> bool {
        match self.peek(0) {
            Some('-') => match self.peek(1) {
                Some(c) if is_name_start(c) || c == '-' => true,
                Some('\\') => self.valid_escape(1),
                _ => false,
            },
            Some(c) if is_name_start(c) => true,
            Some('\\') => self.valid_escape(0),
            _ => false,
        }
    }
    fn starts_number(&self) -> bool {
        match self.peek(0) {
            Some('+') | Some('-') => match self.peek(1) {
                Some(c) if c.is_ascii_digit() => true,
                Some('.') => matches!(self.peek(2), Some(c) if c.is_ascii_digit()),
                _ => false,
            },
            Some('.') => matches!(self.peek(1), Some(c) if c.is_ascii_digit()),
            Some(c) => c.is_ascii_digit(),
            None => false,
        }
    }
    /// consume an escape after the backslash was consumed
    fn escape(&mut self) -> char {
        match self.peek(0) {
            None => '\u{FFFD}',
            Some(c) if c.is_ascii_hexdigit() => {
                let mut v: u32 = 0;
                let mut n = 0;
                while n < 6 {
                    match self.peek(0) {
                        Some(h) if h.is_ascii_hexdigit() => {
                            v = v * 16 + h.to_digit(16).unwrap();
                            self.i += 1;
                            n += 1;
                        }
                        _ => break,
                    }
                }
                if matches!(self.peek(0), Some(' ') | Some('\n') | Some('\t')) {
                    self.i += 1;
                }
                if v == 0 || v > 0x10FFFF || (0xD800..=0xDFFF).contains(&v) { '\u{FFFD}' } else { char::from_u32(v).unwrap_or('\u{FFFD}') }
            }
            Some(c) => {
                self.i += 1;
                c
            }
        }
    }
    fn name(&mut self) -> String {
        let mut out = String::new();
        loop {
            match self.peek(0) {
                Some(c) if is_name(c) => {
                    out.push(c);
                    self.i += 1;
                }
                Some('\\') if self.valid_escape(0) => {
                    self.i += 1;
                    out.push(self.escape());
                }
                _ => break,
            }
        }
        out
    }
    fn string(&mut self, q: char) -> Tok {
        let mut out = String::new();
        loop {
            match self.peek(0) {
                None => return Tok::Str(out),
                Some(c) if c == q => {
                    self.i += 1;
                    return Tok::Str(out);
                }
                Some('\n') => return Tok::BadStr,
                Some('\\') => {
                    self.i += 1;
                    match self.peek(0) {
                        None => {}
                        Some('\n') => self.i += 1,
                        _ => out.push(self.escape()),
                    }
                }
                Some(c) => {
                    out.push(c);
                    self.i += 1;
                }
            }
        }
    }
    fn number(&mut self) -> String {
        let st = self.i;
        if matches!(self.peek(0), Some('+') | Some('-')) {
            self.i += 1;
        }
        while matches!(self.peek(0), Some(c) if c.is_ascii_digit()) {
            self.i += 1;
        }
        if self.peek(0) == Some('.') && matches!(self.peek(1), Some(c) if c.is_ascii_digit()) {
            self.i += 1;
            while matches!(self.peek(0), Some(c) if c.is_ascii_digit()) {
                self.i += 1;
            }
        }
        if matches!(self.peek(0), Some('e') | Some('E')) {
            let k = if matches!(self.peek(1), Some('+') | Some('-')) { 2 } else { 1 };
            if matches!(self.peek(k), Some(c) if c.is_ascii_digit()) {
                self.i += k;
                while matches!(self.peek(0), Some(c) if c.is_ascii_digit()) {
                    self.i += 1;
                }
            }
        }
        self.s[st..self.i].iter().collect()
    }
    fn url_rest(&mut self) -> Tok {
        // after "url(" with optional whitespace consumed and next not a quote
        let mut out = String::new();
        loop {
            match self.peek(0) {
                None => return Tok::Url(out),
                Some(')') => {
                    self.i += 1;
                    return Tok::Url(out);
                }
                Some(c) if c == ' ' || c == '\n' || c == '\t' => {
                    while matches!(self.peek(0), Some(' ') | Some('\n') | Some('\t')) {
                        self.i += 1;
                    }
                    if self.peek(0) == Some(')') {
                        self.i += 1;
                        return Tok::Url(out);
                    }
                    if self.peek(0).is_none() {
                        return Tok::Url(out);
                    }
                    return self.bad_url();
                }
                Some('"') | Some('\'') | Some('(') => return self.bad_url(),
                Some('\\') => {
                    if self.valid_escape(0) {
                        self.i += 1;
                        out.push(self.escape());
                    } else {
                        return self.bad_url();
                    }
                }
                Some(c) => {
                    out.push(c);
                    self.i += 1;
                }
            }
        }
    }
    fn bad_url(&mut self) -> Tok {
        loop {
            match self.peek(0) {
                None => return Tok::BadUrl,
                Some(')') => {
                    self.i += 1;
                    return Tok::BadUrl;
                }
                Some('\\') if self.valid_escape(0) => {
                    self.i += 1;
                    self.escape();
                }
                _ => self.i += 1,
            }
        }
    }
    fn next(&mut self) -> Option<Tok> {
        let c = self.peek(0)?;
        Some(match c {
            '/' if self.peek(1) == Some('*') => {
                self.i += 2;
                let st = self.i;
                loop {
                    match self.peek(0) {
                        None => break,
                        Some('*') if self.peek(1) == Some('/') => break,
                        _ => self.i += 1,
                    }
                }
                let body: String = self.s[st..self.i].iter().collect();
                self.i = (self.i + 2).min(self.s.len());
                Tok::Comment(body)
            }
            ' ' | '\n' | '\t' | '\r' | '\u{c}' => {
                while matches!(self.peek(0), Some(' ') | Some('\n') | Some('\t') | Some('\r') | Some('\u{c}')) {
                    self.i += 1;
                }
                Tok::Ws
            }
            '"' | '\'' => {
                self.i += 1;
                self.string(c)
            }
            '#' => {
                if matches!(self.peek(1), Some(n) if is_name(n)) || self.valid_escape(1) {
                    self.i += 1;
                    Tok::Hash(self.name())
                } else {
                    self.i += 1;
                    Tok::Delim('#')
                }
            }
            '(' | '[' | '{' => {
                self.i += 1;
                Tok::Open(c)
            }
            ')' | ']' | '}' => {
                self.i += 1;
                Tok::Close(c)
            }
            ',' => {
                self.i += 1;
                Tok::Comma
            }
            ':' => {
                self.i += 1;
                Tok::Colon
            }
            ';' => {
                self.i += 1;
                Tok::Semi
            }
            '<' if self.peek(1) == Some('!') && self.peek(2) == Some('-') && self.peek(3) == Some('-') => {
                self.i += 4;
                Tok::Cdo
            }
            '@' => {
                self.i += 1;
                if self.starts_ident() { Tok::AtKeyword(self.name()) } else { Tok::Delim('@') }
            }
            _ if self.starts_number() => {
                let n = self.number();
                if self.starts_ident() {
                    let u = self.name();
                    Tok::Num(n, u)
                } else if self.peek(0) == Some('%') {
                    self.i += 1;
                    Tok::Num(n, "%".into())
                } else {
                    Tok::Num(n, String::new())
                }
            }
            '-' if self.peek(1) == Some('-') && self.peek(2) == Some('>') => {
                self.i += 3;
                Tok::Cdc
            }
            _ if self.starts_ident() => {
                let name = self.name();
                if self.peek(0) == Some('(') {
                    self.i += 1;
                    if name.eq_ignore_ascii_case("url") {
                        let save = self.i;
                        while matches!(self.peek(0), Some(' ') | Some('\n') | Some('\t')) {
                            self.i += 1;
                        }
                        if matches!(self.peek(0), Some('"') | Some('\'')) {
                            self.i = save;
                            Tok::Function(name)
                        } else {
                            self.url_rest()
                        }
                    } else {
                        Tok::Function(name)
                    }
                } else {
                    Tok::Ident(name)
                }
            }
            _ => {
                self.i += 1;
                Tok::Delim(c)
            }
        })
    }
}

/// tokenise; positions are char indices into `chars`
pub fn tokenize_chars(chars: &[char]) -> Vec<Token> {
    let mut lx = Lexer { s: chars, i: 0 };
    let mut out = vec![];
    loop {
        let start = lx.i;
        match lx.next() {
            None => break,
            Some(tok) => out.push(Token { tok, start, end: lx.i }),
        }
    }
    out
}

pub fn tokenize(text: &str) -> Vec<Tok> {
    let chars: Vec<char> = text.chars().collect();
    tokenize_chars(&chars).into_iter().map(|t| t.tok).collect()
}

/// `{}`/`[]`/`()` balance outside strings, comments and url(); Err(description) if not
pub fn balanced(text: &str) -> Result<(), String> {
    let mut stack = vec![];
    for t in tokenize(text) {
        match t {
            Tok::Open(c) => stack.push(c),
            Tok::Function(_) => stack.push('('),
            Tok::Close(c) => {
                let want = match c {
                    ')' => '(',
                    ']' => '[',
                    _ => '{',
                };
                match stack.pop() {
                    Some(o) if o == want => {}
                    Some(o) => return Err(format!("'{c}' closes '{o}'")),
                    None => return Err(format!("unmatched '{c}'")),
                }
            }
            _ => {}
        }
    }
    if let Some(o) = stack.pop() {
        return Err(format!("unclosed '{o}'"));
    }
    Ok(())
}

#[derive(Clone, Debug, PartialEq)]
pub enum Node {
    Decl { name: String, value: String },
    Rule { prelude: String, body: Vec<Node> },
    At { name: String, prelude: String, body: Option<Vec<Node>> },
    Comment(String),
}

struct TreeReader<'a> {
    chars: &'a [char],
    toks: Vec<Token>,
    i: usize,
}

fn text_of(chars: &[char], a: usize, b: usize) -> String {
    let s: String = chars[a..b].iter().collect();
    s.split_whitespace().collect::<Vec<_>>().join(" ")
}

impl<'a> TreeReader<'a> {
    fn skip_ws(&mut self) {
        while matches!(self.toks.get(self.i).map(|t| &t.tok), Some(Tok::Ws) | Some(Tok::Semi) | Some(Tok::Cdo) | Some(Tok::Cdc)) {
            self.i += 1;
        }
    }
    /// advance over component values until a top-level token satisfying `stop`; returns index of the stop token (or len)
    fn scan(&mut self, stop: impl Fn(&Tok) -> bool) -> Result<usize, String> {
        let mut depth: Vec<char> = vec![];
        while let Some(t) = self.toks.get(self.i) {
            if depth.is_empty() && stop(&t.tok) {
                return Ok(self.i);
            }
            match &t.tok {
                Tok::Open(c) => depth.push(*c),
                Tok::Function(_) => depth.push('('),
                Tok::Close(c) => {
                    if depth.pop().is_none() {
                        return Err(format!("unmatched '{c}'"));
                    }
                }
                _ => {}
            }
            self.i += 1;
        }
        if !depth.is_empty() {
            return Err("unclosed bracket".into());
        }
        Ok(self.toks.len())
    }
    fn block(&mut self, top: bool) -> Result<Vec<Node>, String> {
        let mut out = vec![];
        loop {
            self.skip_ws();
            let Some(t) = self.toks.get(self.i).cloned() else {
                return if top { Ok(out) } else { Err("unclosed '{'".into()) };
            };
            match &t.tok {
                Tok::Close('}') => {
                    if top {
                        return Err("unmatched '}'".into());
                    }
                    self.i += 1;
                    return Ok(out);
                }
                Tok::Comment(c) => {
                    out.push(Node::Comment(c.clone()));
                    self.i += 1;
                }
                Tok::AtKeyword(name) => {
                    self.i += 1;
                    let st = self.toks.get(self.i).map(|t| t.start).unwrap_or(self.chars.len());
                    let stop = self.scan(|t| matches!(t, Tok::Semi | Tok::Open('{') | Tok::Close('}')))?;
                    let en = self.toks.get(stop).map(|t| t.start).unwrap_or(self.chars.len());
                    let prelude = text_of(self.chars, st, en);
                    match self.toks.get(stop).map(|t| &t.tok) {
                        Some(Tok::Open('{')) => {
                            self.i = stop + 1;
                            let body = self.block(false)?;
                            out.push(Node::At { name: name.clone(), prelude, body: Some(body) });
                        }
                        _ => out.push(Node::At { name: name.clone(), prelude, body: None }),
                    }
                }
                _ => {
                    let st = t.start;
                    // custom property: value may contain {} blocks
                    let custom = matches!(&t.tok, Tok::Ident(n) if n.starts_with("--"))
                        && matches!(self.toks.get(self.i + 1).map(|t| &t.tok), Some(Tok::Colon));
                    let first = self.i;
                    let stop = if custom {
                        self.scan(|t| matches!(t, Tok::Semi | Tok::Close('}')))?
                    } else {
                        self.scan(|t| matches!(t, Tok::Semi | Tok::Open('{') | Tok::Close('}')))?
                    };
                    let en = self.toks.get(stop).map(|t| t.start).unwrap_or(self.chars.len());
                    match self.toks.get(stop).map(|t| &t.tok) {
                        Some(Tok::Open('{')) => {
                            let prelude = text_of(self.chars, st, en);
                            self.i = stop + 1;
                            let body = self.block(false)?;
                            out.push(Node::Rule { prelude, body });
                        }
                        _ => {
                            // declaration: name : value
                            let colon = (first..stop).find(|k| self.toks[*k].tok == Tok::Colon);
                            match colon {
                                Some(k) => {
                                    let name = text_of(self.chars, st, self.toks[k].start);
                                    let raw: String = self.chars[self.toks[k].end..en].iter().collect();
                                    let value = if custom { raw.trim().to_string() } else { raw.split_whitespace().collect::<Vec<_>>().join(" ") };
                                    out.push(Node::Decl { name, value });
                                }
                                None => return Err(format!("statement without ':' or block: {:?}", text_of(self.chars, st, en))),
                            }
                        }
                    }
                }
            }
        }
    }
}

pub fn parse_sheet(text: &str) -> Result<Vec<Node>, String> {
    let chars: Vec<char> = text.chars().collect();
    let toks = tokenize_chars(&chars);
    let mut r = TreeReader { chars: &chars, toks, i: 0 };
    r.block(true)
}

/// all declarations (selector path, name, value) in document order
pub fn flat_decls(nodes: &[Node]) -> Vec<(Vec<String>, String, String)> {
    fn go(nodes: &[Node], path: &mut Vec<String>, out: &mut Vec<(Vec<String>, String, String)>) {
        for n in nodes {
            match n {
                Node::Decl { name, value } => out.push((path.clone(), name.clone(), value.clone())),
                Node::Rule { prelude, body } => {
                    path.push(prelude.clone());
                    go(body, path, out);
                    path.pop();
                }
                Node::At { name, prelude, body: Some(b) } => {
                    path.push(format!("@{name} {prelude}").trim().to_string());
                    go(b, path, out);
                    path.pop();
                }
                _ => {}
            }
        }
    }
    let mut out = vec![];
    go(nodes, &mut vec![], &mut out);
    out
}

/// strip the encoding marker (`@charset "UTF-8";\n` or BOM)
pub fn strip_marker(text: &str) -> &str {
    text.strip_prefix("@charset \"UTF-8\";\n").or_else(|| text.strip_prefix('\u{FEFF}')).unwrap_or(text)
}

/// decode the first string token of `text` (quoted), if the text is exactly one string token
pub fn single_string(text: &str) -> Option<String> {
    let t = tokenize(text.trim());
    match t.as_slice() {
        [Tok::Str(s)] => Some(s.clone()),
        _ => None,
    }
}
