#!/usr/bin/env python3
"""Regenerates /verif/MANIFEST.json from tools/checks.json (one entry per claimed property)."""
import json, os
V = '/verif'
props = [json.loads(l) for l in open(f'{V}/properties.jsonl')]
claimed = json.load(open(f'{V}/tools/checks.json'))
na_reasons = claimed.pop('_not_applicable', {})
checks = []
for p in props:
    i = p['id']
    if i not in claimed:
        continue
    c = claimed[i]
    checks.append({
        "property_id": i,
        "quick_cmd": f"./check {i} quick",
        "thorough_cmd": f"./check {i} thorough",
        "evidence_file": f"evidence/{i}.json",
        "replay_cmd_template": f"./check {i} --replay {{path}}",
        "engine": "vcheck",
        "level_claimed": {"category": c.get("category", "exploration"), "text": c["text"], "design_ref": c.get("design_ref", f"DESIGN.md section 3, {i}")},
        "level_note": c["note"],
        "technique": c["technique"],
    })
na = [{"property_id": p['id'], "reason": na_reasons.get(p['id'], "check not implemented yet (build in progress; DESIGN.md section 9 gives the order)")} for p in props if p['id'] not in claimed]
m = {
    "version": 1,
    "setup_cmd": "./setup.sh",
    "hooks": {"guard": "kaj_rsass_verif", "enable": "harness/.cargo/config.toml passes --cfg kaj_rsass_verif to every crate built by ./check (no rsass code is behind it: all checks observe the public API)", "baseline_off_cmd": "cd /repo && cargo test --workspace --no-fail-fast --offline", "source_commits": [], "add_only": True},
    "engines": [{"name": "vcheck", "path": "harness/", "serves_properties": [c["property_id"] for c in checks], "kind_free_text": "Rust binary linking /repo/rsass by path; proptest TestRunner sharded over 16 threads with shrinking, bounded-exhaustive enumerations, worker subprocesses for crash/hang isolation, known-finding regions, replay files, evidence writer"}],
    "checks": checks,
    "notes": "See DESIGN.md. ./check <id> quick|thorough rebuilds the harness (and rsass from /repo's working tree) and runs the property; exit 0 held, 1 VIOLATION, 2 inconclusive. known_findings.json lists recorded and fixed defects.",
    "not_applicable": na,
}
json.dump(m, open(f'{V}/MANIFEST.json', 'w'), indent=1)
print(f"{len(checks)} checks, {len(na)} not claimed")
