#!/opt/veriftools/pyvenv/bin/python
import json, jsonschema, glob, sys
jsonschema.validate(json.load(open('/verif/MANIFEST.json')), json.load(open('/root/.vp/MANIFEST.schema.json')))
es = json.load(open('/root/.vp/EVIDENCE.schema.json'))
for f in sorted(glob.glob('/verif/evidence/*.json')):
    try:
        jsonschema.validate(json.load(open(f)), es)
    except Exception as e:
        print('INVALID', f, str(e)[:300]); sys.exit(1)
print('manifest and', len(glob.glob('/verif/evidence/*.json')), 'evidence files valid')
