#!/usr/bin/env python3
"""tools/archive_seed.py Cxx 'needs' 'caught: ...' [round] -> /verif/seeded/Cxx/{patch.diff,demo,notes.md,meta.json}"""
import sys, os, shutil, json, re
pid, needs, caught = sys.argv[1], sys.argv[2], sys.argv[3]
rnd = sys.argv[4] if len(sys.argv) > 4 else ''
src = f'/tmp/seed-out{rnd}/{pid}'; dst = f'/verif/seeded/{pid}' + (f'/r{rnd}' if rnd else '')
os.makedirs(dst, exist_ok=True)
for f in ['patch.diff', 'seed_demo.rs', 'demo.sh', 'notes.md']:
    if os.path.exists(f'{src}/{f}'): shutil.copy(f'{src}/{f}', f'{dst}/{f}')
summary = [l.strip() for l in open(f'{src}/verify.log') if l.startswith('SUMMARY')]
files = sorted(set(re.findall(r'^\+\+\+ b/(\S+)', open(f'{src}/patch.diff').read(), re.M)))
meta = {"property": pid, "files_changed": files, "needs_to_manifest": needs,
        "confirmed_by_me": {"how": "tools/verify_seed.sh (scratch worktree rebased onto /repo HEAD: patch applies; cargo test --workspace --offline passes with it; demo fails with it and passes without it)", "result": summary},
        "checks_run": caught, "written_by": "fresh sub-agent given only the property text and a scratch worktree"}
json.dump(meta, open(f'{dst}/meta.json', 'w'), indent=1)
print(dst, files)
