#!/usr/bin/env python3
"""prints the prompt for a mutant-writing sub-agent: only the property text and a worktree path"""
import json, sys
pid = sys.argv[1]
rnd = sys.argv[2] if len(sys.argv) > 2 else ""          # "" = first round, "2" = second round ...
wt = f"/tmp/seed{rnd}-{pid}"
outd = f"/tmp/seed-out{rnd}/{pid}"
earlier = ""
if rnd:
    import os
    done = []
    for m in [f"/verif/seeded/{pid}/meta.json"] + [f"/verif/seeded/{pid}/r{k}/meta.json" for k in range(2, 9)]:
        if os.path.exists(m):
            meta = json.load(open(m))
            done.append(f"one touched {', '.join(meta['files_changed'])} and needed: {meta['needs_to_manifest']}")
    if done:
        earlier = "\n\nEarlier reviewers already produced such changes for this property: " + "; ".join(done) + ". Yours must use a DIFFERENT mechanism (another function, another part of the statement, another kind of input), and it must not simply re-introduce a bug that the git history of the repository shows as fixed (look at `git log --oneline | head -80`)."
p = [json.loads(l) for l in open('/verif/properties.jsonl') if json.loads(l)['id'] == pid][0]
print(f"""You are helping to evaluate a verification effort for the Rust project kaj/rsass (a pure-Rust Sass/SCSS compiler: nom parser, scoped evaluator, built-in function modules, selector algebra, CSS output).

You have your own scratch git worktree of the repository at {wt} (work ONLY there; never touch /repo or /verif, and do not read anything under /verif). The sandbox is offline: always pass --offline to cargo. The whole test suite is run with `cd {wt} && cargo test --workspace --offline` (about 90 s for a cold build, then ~15 s).

Here is a semantic property the compiler is supposed to satisfy:

  Title: {p['title']}
  Statement: {p['statement']}
  Quantified over: {p['quantifier']['text']}

Your task: make a small change to the rsass sources in {wt} (typically 1-15 lines, in rsass/src/ or rsass-cli/src/) that BREAKS this property, while
  (a) the workspace still compiles without new warnings that would fail the build, and
  (b) the existing test suite still passes completely (run it and check: 0 failed), and
  (c) the breakage needs something specific to manifest - an unusual input, a particular combination of features, a multi-step sequence, a boundary value, two cooperating sites that each look fine alone - NOT something that ordinary use or the first obvious example would expose at once. It should look like a plausible bug a maintainer could introduce (an off-by-one, a swapped argument, a missed case, a wrong comparison, an over-eager optimisation), not sabotage such as `if input == "magic"`.

{earlier}

Then write a demonstration: either a Rust integration test file that can be dropped in as rsass/tests/seed_demo.rs and run with `cargo test -p rsass --test seed_demo --offline` (it may only use the public API of the rsass crate), or a shell script demo.sh taking the worktree path as $1. The demonstration must FAIL with your change applied and PASS on the unchanged code (verify both; do NOT use `git stash` - the stash list is shared with other worktrees - instead save your change with `git diff > {outd}/patch.diff`, undo it with `git apply -R`, and re-apply it with `git apply`).

Deliverables, written to {outd}/ (create the directory):
  - patch.diff : output of `git -C {wt} diff` with ONLY your source change (not the demo file)
  - seed_demo.rs or demo.sh : the demonstration
  - notes.md : which property it breaks and how, what exactly is needed for the breakage to manifest, and the commands you ran with their results (suite: N passed / 0 failed with the change; demo fails with / passes without).
Leave the worktree with your change applied (demo file may stay untracked). Do not commit. If your first idea breaks existing tests, try another; you can make several attempts. Keep the final answer short: a 5-line summary of the change and what triggers it.""")
