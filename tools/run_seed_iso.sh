#!/bin/bash
# tools/run_seed_iso.sh Cxx [round] [tier] : run the check of Cxx against the sub-agent's worktree (which holds /repo's HEAD
# plus the seeded change, see verify_seed.sh) WITHOUT touching /repo or /verif: a copy of the harness sources is pointed at
# the worktree's rsass and built in a shared scratch target directory.  Use this while other runs depend on /repo.
id=$1; rnd=$2; tier=${3:-quick}
wt=/tmp/seed$rnd-$id; out=/tmp/seed-out$rnd/$id; root=/tmp/vseed-root
[ -d $wt/rsass ] || { echo "no worktree $wt"; exit 2; }
rm -rf $root; mkdir -p $root/replays
rsync -a --exclude target /verif/harness $root/
cp /verif/known_findings.json $root/
cp -r /verif/replays/regress $root/replays/ 2>/dev/null
sed -i "s#/repo/rsass#$wt/rsass#" $root/harness/Cargo.toml
cd $root/harness || exit 2
export CARGO_TARGET_DIR=/tmp/vseed-target CARGO_NET_OFFLINE=true
if ! cargo build --release --offline > $out/iso-build.log 2>&1; then echo "build failed (see $out/iso-build.log)"; tail -5 $out/iso-build.log; exit 2; fi
if [ "$id" = "C40" ]; then
  # the command-line tool is built from the worktree as well
  cargo build --release --offline --manifest-path $wt/rsass-cli/Cargo.toml --target-dir $root/harness/target/cli >> $out/iso-build.log 2>&1 || { echo "cli build failed"; exit 2; }
fi
VERIF_ROOT=$root /tmp/vseed-target/release/vcheck $id $tier > $out/check-$id-$tier.log 2>&1; code=$?
grep -E "^(VIOLATION|why:|C[0-9]+ (quick|thorough):|inconclusive)" $out/check-$id-$tier.log | cut -c1-500
echo "exit=$code"
