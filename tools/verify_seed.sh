#!/bin/bash
# tools/verify_seed.sh Cxx : confirm a sub-agent's seeded change in its scratch worktree, rebased onto /repo's HEAD:
#   patch applies, workspace suite passes with it, demo fails with it and passes without it.
# Writes /tmp/seed-out/Cxx/verify.log and prints a one-line summary.
id=$1; rnd=$2; wt=/tmp/seed$rnd-$id; out=/tmp/seed-out$rnd/$id; log=$out/verify.log
exec > >(tee $log) 2>&1
set -x
cd $wt || exit 2
# (no git stash: the stash list is shared by all worktrees of /repo)
git checkout -q -- . ; rm -f rsass/tests/seed_demo.rs
git checkout -q --detach $(git -C /repo rev-parse HEAD) || exit 2
if ! git apply --check $out/patch.diff; then echo "SUMMARY $id patch does not apply to HEAD"; exit 1; fi
git apply $out/patch.diff
demo_kind=none
if [ -f $out/seed_demo.rs ]; then cp $out/seed_demo.rs rsass/tests/seed_demo.rs; demo_kind=rs; elif [ -f $out/demo.sh ]; then demo_kind=sh; fi
run_demo() { if [ $demo_kind = rs ]; then cargo test -p rsass --test seed_demo --offline >$out/demo.$1.log 2>&1; else bash $out/demo.sh $wt >$out/demo.$1.log 2>&1; fi; }
run_demo with; with=$?
# suite without the demo file
[ $demo_kind = rs ] && mv rsass/tests/seed_demo.rs $out/.seed_demo.rs.tmp
cargo test --workspace --no-fail-fast --offline >$out/suite.log 2>&1; suite=$?
failed=$(grep -c "^test .* FAILED" $out/suite.log)
[ $demo_kind = rs ] && mv $out/.seed_demo.rs.tmp rsass/tests/seed_demo.rs
git apply -R $out/patch.diff
run_demo without; without=$?
git apply $out/patch.diff
set +x
echo "SUMMARY $id demo_with_change_exit=$with (want !=0) demo_without_exit=$without (want 0) suite_exit=$suite failed_tests=$failed"
