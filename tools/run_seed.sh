#!/bin/bash
# tools/run_seed.sh <seed dir with patch.diff> <Cxx> [tier] : apply a seeded change to /repo, run the check, undo it.
d=$1; id=$2; tier=${3:-quick}
if [ -n "$(git -C /repo status --porcelain --untracked-files=no)" ]; then echo "refusing: /repo has uncommitted changes"; exit 2; fi
git -C /repo apply $d/patch.diff || { echo "patch does not apply"; exit 2; }
cp /verif/evidence/$id.json /tmp/evidence-$id.keep 2>/dev/null
/verif/check $id $tier > $d/check-$id-$tier.log 2>&1; code=$?
git -C /repo checkout -- .
# the evidence file must describe a run on the unchanged tree
[ -f /tmp/evidence-$id.keep ] && mv /tmp/evidence-$id.keep /verif/evidence/$id.json
rm -f /verif/replays/$id-*.json
grep -E "^(VIOLATION|why:|C[0-9]+ (quick|thorough):|inconclusive)" $d/check-$id-$tier.log | cut -c1-400
echo "exit=$code"
