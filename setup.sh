#!/bin/bash
exit 0
