#!/bin/bash
# offline build of the harness from files on disk
set -e
cd /verif/harness
export CARGO_NET_OFFLINE=true
cargo build --release --offline
