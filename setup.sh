#!/bin/bash
# offline build of the harness from files on disk
set -e
cd "$(cd "$(dirname "$0")" && pwd)/harness"
export CARGO_NET_OFFLINE=true
cargo build --release --offline
